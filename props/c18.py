"""C18: the dialect is chosen by options, then by the query header, then generic (mirsym kernels)."""
import core
import kchecks

LEVEL = "model_checking"


def run(R, tier, seed, only=None):
    drv = core.Driver()
    if only in (None, "dialect"):
        kchecks.check_dialect(R, drv, tier)
    if only in (None, "target"):
        kchecks.check_target(R, drv, tier)
    if only in (None, "route"):
        kchecks.check_dialect_route(R, drv, tier)
    drv.close()
    R.cov["bounds"] = {"option": "absent or any of the 12 dialects", "header": "absent / present; parse outcome symbolic (Ok(Sql(None)), Ok(Sql(Some(d))) for all d, Err)",
                       "target string": "every string (z3 string theory), no length bound"}
    R.cov["traces_validated_against_impl"] = R.cov["queries"].get("sat", 0)
    R.cov["explanation"] = "symbolic execution of the head of compile_query and of Target::from_str / Dialect::from_str from the current tree's MIR; one z3 query per exit; models replayed through prqlc::compile"
    R.cov["trusted_base"] = ["z3 5.1.0 (bit-vectors, strings)", "rustc nightly MIR front end", "engines/mirsym (MIR interpreter + std models listed in models_used)"]
    R.cov["outside_bounds"] = ["'the choice never changes which programs the resolver accepts' (resolver out of reach)", "equality of whole SQL texts beyond the replay probe"]
    R.assumptions += ["HashMap::get(\"target\") is modelled as an arbitrary Option<&String>", "in K-dialect Target::from_str is an uninterpreted outcome; K-target executes its real body",
                      "documented target names: " + ", ".join(kchecks.DOCUMENTED_TARGETS) + ", sql.any"]


def replay(path):
    import replaytool
    return replaytool.replay_file(path)
