"""C06: refactorings PRQL defines as equivalent do not change results (SQL == SQL by z3)."""
import core
import propcheck
import rewrites

LEVEL = "translation_validation"


def run(R, tier, seed, only=None):
    drv = core.build_driver()
    k = 2 if tier == "quick" else 3
    fam = rewrites.family_c06(tier, seed)
    for target in ("sql.sqlite", "sql.generic"):
        kk = k if target == "sql.sqlite" else 2          # the generic text is the same in almost all cases: smaller bound there
        jobs = [("c_equiv", f"{target}:{tag}", payload, {"k": kk, "target": target, "timeout_ms": 20000 if tier == "quick" else 120000}) for tag, payload in fam]
        propcheck.run_family(R, drv, jobs, f"rewrites/{target}", max_unsupported=0.05)
    R.cov["bounds"] = {"rows_per_table": k, "value_range": "|v| <= 2^20", "base_programs": "all pipelines of <=2 templates (explicit-column head) of the relational alphabet + conjunctive filter + literal derive (thorough: + length 3 over 13 templates)",
                       "rewrites": ["let@i", "into@i", "module-let@i", "func-positional", "func-piped", "func-module", "func-default", "func-named", "split-filter", "filter-true@i", "select-all@i"],
                       "quick": "at most 160 (base, site) pairs per rewrite kind, seed-rotated"}
    R.cov["functions_encoded"] = ["prqlc::compile for base and rewritten program; both SQL texts encoded by engines/symdb/sqlsem.py and compared by z3"]
    R.cov["trusted_base"] = propcheck.TRUSTED
    R.cov["outside_bounds"] = ["compositions of rewrites", "rewrites inside group/window pipelines", "other dialects"]
    R.assumptions += propcheck.COMMON_ASSUMPTIONS + ["the base program's own deviations from the reference belong to C01-C05; here only a difference between base and rewritten SQL counts"]


def replay(path):
    import replaytool
    return replaytool.replay_file(path)
