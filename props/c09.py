"""C09: identifiers verbatim; generated names never capture user names (retab + symdb capture family)."""
import core
import families
import propcheck

LEVEL = "translation_validation"


def run(R, tier, seed, only=None):
    drv = core.build_driver()
    if only in (None, "retab"):
        import retab_c09
        retab_c09.run(R, tier, seed, drv)
    if only in (None, "sqlident"):
        import os
        import sys
        sys.path.insert(0, os.path.join(core.VERIF, "engines", "mirsym"))
        import sqlstr
        d = core.Driver(drv)
        sqlstr.check_sqlident(R, d, tier)
        d.close()
    if only in (None, "capture"):
        k = 2 if tier == "quick" else 3
        fam = families.family_c09(tier, seed)
        for target in ("sql.sqlite", "sql.generic"):
            jobs = [("c_prog", f"{target}:{tag}", prog, {"k": k, "target": target, "schema": families.C09_SCHEMA}) for tag, prog in fam]
            propcheck.run_family(R, drv, jobs, f"capture/{target}")
        R.cov.setdefault("bounds", {}).update({"capture_family": "all pipelines of <=2 templates of the relational alphabet over user tables table_0/table_1/table_2 and a user column _expr_0, plus hand-written alias/CTE clashes",
                                               "rows_per_table": k})
    R.cov["trusted_base"] = propcheck.TRUSTED + ["z3 sequence/regex theory", "engines/retab (regex translator)"]
    R.cov["outside_bounds"] = ["lexical rules of the ten dialects that cannot be executed here", "quoted identifiers longer than the K-sqlident bound; the `[..]` quote style (no dialect of prqlc uses it)"]
    R.assumptions += propcheck.COMMON_ASSUMPTIONS


def replay(path):
    import replaytool
    return replaytool.replay_file(path)
