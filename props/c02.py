"""C02: precedence, associativity, null handling and literal folding survive to SQL."""
import core
import families
import propcheck

LEVEL = "translation_validation"


def run(R, tier, seed, only=None):
    drv = core.build_driver()
    fam = families.family_c02(tier, seed)
    to = 10000 if tier == "quick" else 60000
    for target in ("sql.sqlite", "sql.generic"):
        jobs = [("c_expr", f"{target}:{tag}", prog, {"target": target, "timeout_ms": to}) for tag, prog in fam]
        propcheck.run_family(R, drv, jobs, f"expressions/{target}", max_inconclusive=0.02)
    import kchecks
    d = core.Driver(drv)
    kchecks.check_fold(R, d, tier, want=("spec",))
    d.close()
    R.cov["bounds"] = {"rows_per_table": 1, "columns": "a b c d (numeric) p q r (boolean-valued ints)", "value_range": "|v| <= 2^20 (<= 8 when ** occurs)",
                       "trees": "all well-typed (parent, child, side) pairs over 16 binary operators x leaves; unary/binary adjacency; depth-3 trees with both grandchildren compound "
                                "(quick: seed-rotated slice of 400; thorough: all); case/in/??/null forms; literal and null folding forms; each printed fully parenthesised and with the minimal "
                                "parentheses of the documented precedence table", "targets": ["sql.sqlite", "sql.generic"]}
    R.cov["functions_encoded"] = ["prqlc::compile per tree (parser Pratt table, expand_binary/unary, static_eval, translate_operator/needs_parentheses, process_null, templates of std.sql.prql)",
                                  "emitted SQL expression encoded by engines/symdb/sqlsem.py under SQLite's typed semantics and SQLite's comparison precedence"]
    R.cov["trusted_base"] = propcheck.TRUSTED + ["rustc nightly MIR front end", "engines/mirsym (K-fold: static_eval_rq_operator from MIR)"]
    R.cov["outside_bounds"] = ["floats as data (IEEE rounding)", "string and regex operators (~=)", "** beyond which operands reach POW (uninterpreted)",
                               "`//` outside the designated sub-family (known finding on sqlite)", "dialects other than sqlite/generic",
                               "generic: bare '/' read as real division; mixed comparison chains on which engines disagree are not given a meaning"]
    R.assumptions += propcheck.COMMON_ASSUMPTIONS


def replay(path):
    import replaytool
    return replaytool.replay_file(path)
