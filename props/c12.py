"""C12 (slice): panic-freedom of the integer kernels that user-controlled literals reach (mirsym)."""
import core
import kchecks

LEVEL = "model_checking"


def run(R, tier, seed, only=None):
    drv = core.Driver()
    kchecks.check_take(R, drv, tier, want=("panic",))
    kchecks.check_frame(R, drv, tier, want=("panic",))
    kchecks.check_lit(R, drv, tier)
    kchecks.check_roll(R, drv, tier, want=("panic",))
    kchecks.check_json_prim(R, drv, tier)
    kchecks.check_id(R, drv, tier)
    kchecks.check_fold(R, drv, tier, want=("panic",))
    kchecks.check_sstr(R, drv, tier)
    import strlex
    strlex.check_strlex_total(R, drv, tier)
    import sqlstr
    sqlstr.check_litnum(R, drv, tier, want=("panic",))
    drv.close()
    R.cov.setdefault("bounds", {}).update({"take_ranges": "k <= 2 (quick) / 3 (thorough) consecutive takes, every bound any i64 or absent", "integers": "64-bit bit-vectors, overflow checks on (dev profile)"})
    R.cov["traces_validated_against_impl"] = R.cov["queries"].get("sat", 0)
    R.cov["explanation"] = "bounded symbolic execution of the kernels' MIR (regenerated from the current tree); every panic exit is a z3 query; models are replayed through prqlc::compile / rq_to_sql"
    R.cov["trusted_base"] = ["z3 5.1.0", "rustc nightly MIR front end", "engines/mirsym (MIR interpreter + std models listed in models_used)"]
    R.cov["outside_bounds"] = ["panics reachable only through tree-shaped data (unpack, todo!, cid lookups, error composition)", "stack exhaustion", "running time", "lexer (except its hand-written string reader, K-strlex-total) / parser / resolver"]
    R.assumptions += ["source entry: take bounds satisfy validate_take_range (>= 1); rq-json entry: no precondition",
                      "try_range_into_int is stubbed: ranges arrive as integer ranges, the non-integer error path is a separate alternative",
                      "serde_json::Number is modelled by its documented contract over N::{PosInt(u64), NegInt(i64<0), Float}: is_i64, is_f64, as_i64, as_f64"]


def replay(path):
    import replaytool
    return replaytool.replay_file(path)
