"""C14 (slice): the formatter's identifier and parenthesis decisions preserve the program (retab + kani)."""
import core

LEVEL = "model_checking"


def run(R, tier, seed, only=None):
    drv = core.build_driver()
    if only in (None, "ident"):
        import retab_c14
        retab_c14.run(R, tier, seed, drv)
    if only in (None, "paren"):
        import fmtparen
        fmtparen.run(R, tier, seed, drv)
    if only in (None, "writer"):
        import fmtwriter
        fmtwriter.run(R, tier, seed, drv)
    if only in (None, "quote"):
        import os
        import sys
        sys.path.insert(0, os.path.join(core.VERIF, "engines", "mirsym"))
        import kchecks
        d = core.Driver(drv)
        kchecks.check_quote(R, d, tier)
        d.close()
    if only in (None, "litfmt"):
        import os
        import sys
        sys.path.insert(0, os.path.join(core.VERIF, "engines", "mirsym"))
        import litfmt
        d = core.Driver(drv)
        litfmt.check_litfmt(R, d, tier)
        d.close()
    if only in (None, "interp"):
        import os
        import sys
        sys.path.insert(0, os.path.join(core.VERIF, "engines", "mirsym"))
        import litfmt
        d = core.Driver(drv)
        litfmt.check_interp(R, d, tier)
        d.close()
    R.cov["states"] = max(1, R.cov.get("states", 0))
    R.cov["transitions"] = max(1, R.cov.get("transitions", 0))
    R.cov["traces_validated_against_impl"] = R.cov["queries"].get("sat", 0)
    R.cov["explanation"] = "identifier decision: regular-language inclusion by z3 over all strings; parenthesis decision: see fmtparen (symbolic operator pairs)"
    R.cov["trusted_base"] = ["z3 5.1.0 (sequence/regex theory)", "engines/retab regex translator (cross-checked against python re)", "driver fmt op (pl_to_prql + prql_to_pl) for replay"]
    R.cov["outside_bounds"] = ["literal printing (quote_string, escapes, float and date printing)", "interpolation escaping", "line breaking", "comments", "idempotence of whole texts"]
    R.assumptions += ["documented keyword list: let into case prql type module internal func import enum true false null"]


def replay(path):
    import replaytool
    return replaytool.replay_file(path)
