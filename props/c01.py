"""C01: compiled SQL returns the relation the pipeline denotes (symdb translation validation)."""
import core
import families
import propcheck

LEVEL = "translation_validation"


def run(R, tier, seed, only=None):
    drv = core.build_driver()
    k = 2 if tier == "quick" else 3
    fam = families.family_c01(tier, seed)
    jobs = [("c_prog", tag, prog, {"k": k, "timeout_ms": 20000 if tier == "quick" else 120000}) for tag, prog in fam]
    propcheck.run_family(R, drv, jobs, "relational-core")
    jobs = [("c_prog_generic", "sql.generic:" + tag, prog, {"k": k, "timeout_ms": 20000 if tier == "quick" else 120000}) for tag, prog in fam]
    propcheck.run_family(R, drv, jobs, "relational-core/sql.generic")
    R.cov["bounds"] = {"rows_per_table": k, "tables": 3, "value_range": "|v| <= 2^20", "pipeline_length": "<=2 exhaustive + slice of 3 (quick); <=3 exhaustive + slice of 4 (thorough)",
                       "alphabet": sorted(families.ALPHABET)}
    R.cov["functions_encoded"] = ["whole compiler run concretely per program (prqlc::compile); emitted SQL encoded by engines/symdb/sqlsem.py"]
    R.cov["trusted_base"] = propcheck.TRUSTED
    R.cov["outside_bounds"] = ["loop", "s-strings", "text/float/date data", "dialects other than sqlite/generic (generic: decided where its text differs from the sqlite target's)", "pipelines longer than the stated length"]
    R.assumptions += propcheck.COMMON_ASSUMPTIONS


def replay(path):
    import replaytool
    return replaytool.replay_file(path)
