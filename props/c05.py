"""C05: result columns are exactly the final frame (symdb translation validation)."""
import core
import families
import propcheck

LEVEL = "translation_validation"


def run(R, tier, seed, only=None):
    drv = core.build_driver()
    k = 2 if tier == "quick" else 3
    fam = families.family_c05(tier, seed)
    to = 20000 if tier == "quick" else 120000
    for target in ("sql.sqlite", "sql.generic"):
        jobs = [("c_prog", f"{target}:{tag}", prog, {"k": k, "timeout_ms": to, "target": target}) for tag, prog in fam]
        propcheck.run_family(R, drv, jobs, f"projections/{target}")
    if only in (None, "exclude"):
        # dialects with a SELECT * EXCLUDE / EXCEPT facility: no engine here, so only the result schema (binder on the
        # re-parsed text) is compared with the final frame; value differences are not reported for them
        for target in ("sql.duckdb", "sql.bigquery"):
            jobs = [("c_prog", f"{target}:{tag}", prog, {"k": 1, "timeout_ms": to, "target": target}) for tag, prog in fam]
            propcheck.run_family(R, drv, jobs, f"projections-schema/{target}", max_unsupported=0.5)
    R.cov["bounds"] = {"rows_per_table": k, "value_range": "|v| <= 2^20", "targets": ["sql.sqlite", "sql.generic"], "family": families.family_c05.__doc__ or "projections"}
    R.cov["functions_encoded"] = ["prqlc::compile per program; emitted SQL encoded by engines/symdb/sqlsem.py (binder + bag/sequence semantics)"]
    R.cov["trusted_base"] = propcheck.TRUSTED
    R.cov["outside_bounds"] = ["duckdb / bigquery: result schema only (no engine here), programs whose SQL uses dialect functions outside the encoded subset are skipped", "ties and NULLs in sort / positional window keys", "take without a sort in effect", "text/float/date data", "other dialects", "longer pipelines"]
    R.assumptions += propcheck.COMMON_ASSUMPTIONS


def replay(path):
    import replaytool
    return replaytool.replay_file(path)
