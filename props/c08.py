"""C08 (slice): string values reach the SQL text as one literal token that denotes them (mirsym over prqlc + sqlparser MIR)."""
import core

LEVEL = "model_checking"


def run(R, tier, seed, only=None):
    import os
    import sys
    sys.path.insert(0, os.path.join(core.VERIF, "engines", "mirsym"))
    d = core.Driver(core.build_driver())
    if only in (None, "sqlstr"):
        import sqlstr
        sqlstr.check_sqlstr(R, d, tier)
    if only in (None, "litnum"):
        import sqlstr
        sqlstr.check_litnum(R, d, tier)
    if only in (None, "strlex"):
        import strlex
        strlex.check_strlex(R, d, tier)
    if only in (None, "numbase"):
        import numlex
        numlex.check_numbase(R, d, tier)
    if only in (None, "numdec"):
        import numlex
        numlex.check_numdec(R, d, tier)
    d.close()
    R.cov["states"] = max(1, R.cov.get("states", 0))
    R.cov["transitions"] = max(1, R.cov.get("transitions", 0))
    # concrete inputs pushed through the real code and compared with the encoding's reference (self-tests of K-sqlstr and K-strlex),
    # plus every solver model that was replayed natively
    R.cov["traces_validated_against_impl"] = R.cov.get("concrete_probes_validated", 0) + R.cov["queries"].get("sat", 0)
    R.cov["explanation"] = ("bounded symbolic execution of the MIR of prqlc's translate_literal and of the sqlparser dependency's Display code for string values: "
                            "the text is an array of symbolic code points with a symbolic length; every exit path yields the exact sequence of characters written, "
                            "and z3 decides that a doubled-quote-only SQL lexer reads it back as one literal denoting the text")
    R.cov["trusted_base"] = ["z3 5.1.0", "nightly rustc MIR front end (prqlc and the sqlparser dependency)", "engines/mirsym interpreter + the std models listed in models_used",
                             "the reference reader of '...' literals (sqlstr.reads_back; its concrete twin is compared with SQLite in the self-test)", "SQLite 3.40 on replay"]
    R.cov["outside_bounds"] = ["strings longer than the bound", "dialects whose lexer gives the backslash a meaning inside '...' (mysql, bigquery, clickhouse, snowflake): "
                               "prqlc emits backslashes verbatim for them, which no engine here can execute",
                               "the PRQL lexer (which value a quoted source text denotes): see K-strlex if present", "float and date/time literals (float formatting lives in core; "
                               "date texts are restricted by the lexer)", "the hops Expr -> ValueWithSpan -> Value of sqlparser's Display (plain delegation)"]
    R.assumptions += ["Formatter::write_str succeeds (writing into a String)", "a string reaches the SQL text only through translate_literal's String/RawString arms "
                      "(f-string fragments, from_text cells and std.text arguments are such literals)"]


def replay(path):
    import replaytool
    return replaytool.replay_file(path)
