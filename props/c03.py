"""C03: sort order persists; take selects by position (symdb translation validation)."""
import core
import families
import propcheck

LEVEL = "translation_validation"


def run(R, tier, seed, only=None):
    drv = core.build_driver()
    k = 2 if tier == "quick" else 3
    fam = families.family_c03(tier, seed)
    to = 20000 if tier == "quick" else 120000
    for target in (("sql.sqlite", "sql.generic") if only in (None, "symdb") else ()):
        jobs = [("c_prog", f"{target}:{tag}", prog, {"k": k, "timeout_ms": to, "target": target}) for tag, prog in fam]
        propcheck.run_family(R, drv, jobs, f"ordered pipelines/{target}")
    if only in (None, "kernels"):
        import kchecks
        d = core.Driver(drv)
        kchecks.check_take(R, d, tier, want=("position",))
        kchecks.check_take_step(R, d, tier)
        kchecks.check_lit(R, d, tier)
        d.close()
        R.cov.setdefault("kernel_bounds", {}).update({"K-take": "k <= 2 consecutive takes end to end (range_of_ranges + LIMIT/OFFSET), bounds any i64 >= 1 or absent, positions 1 <= p < 2^62", "K-take-step": "one loop iteration from an arbitrary accumulated range: inductive step for any k", "K-lit": "every i64"})
    R.cov["bounds"] = {"rows_per_table": k, "value_range": "|v| <= 2^20", "targets": ["sql.sqlite", "sql.generic"], "family": families.family_c03.__doc__ or "ordered pipelines"}
    R.cov["functions_encoded"] = ["prqlc::compile per program; emitted SQL encoded by engines/symdb/sqlsem.py (binder + bag/sequence semantics)"]
    R.cov["trusted_base"] = propcheck.TRUSTED + ["rustc nightly MIR front end", "engines/mirsym (MIR interpreter + std models)"]
    R.cov["outside_bounds"] = ["ties and NULLs in sort / positional window keys", "take without a sort in effect", "text/float/date data", "other dialects", "longer pipelines"]
    R.assumptions += propcheck.COMMON_ASSUMPTIONS


def replay(path):
    import replaytool
    return replaytool.replay_file(path)
