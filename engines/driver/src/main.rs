//! vdriver: long-lived JSON-lines front end to the real compiler (public API only).
//!
//! One request per input line, one response per output line.
//! ops: compile, fmt, pl, rq, rq_to_sql, parse_sql, ping
use std::io::{BufRead, Write};
use std::panic::{catch_unwind, AssertUnwindSafe};
use std::str::FromStr;
use std::sync::Mutex;

use serde_json::{json, Value};

static LAST_PANIC: Mutex<Option<String>> = Mutex::new(None);

fn opts(target: Option<&str>) -> Result<prqlc::Options, String> {
    let mut o = prqlc::Options::default()
        .no_format()
        .no_signature()
        .with_display(prqlc::DisplayOptions::Plain);
    if let Some(t) = target {
        if let Some(variant) = t.strip_prefix("variant:") {
            // dialect given by its enum variant name through serde (bypasses Target::from_str / strum)
            let d: prqlc::sql::Dialect = serde_json::from_value(Value::String(variant.to_string())).map_err(|e| e.to_string())?;
            o = o.with_target(prqlc::Target::Sql(Some(d)));
        } else {
            let t = prqlc::Target::from_str(t).map_err(|e| format!("{e:?}"))?;
            o = o.with_target(t);
        }
    }
    Ok(o)
}

fn errs(e: prqlc::ErrorMessages) -> Value {
    let v: Vec<Value> = e
        .inner
        .iter()
        .map(|m| {
            json!({
                "reason": m.reason,
                "code": m.code,
                "span": m.span.map(|s| json!({"start": s.start, "end": s.end, "source_id": s.source_id})),
                "location": m.location.as_ref().map(|l| json!({"start": [l.start.0, l.start.1], "end": [l.end.0, l.end.1]})),
                "hints": m.hints,
                "display": m.display,
            })
        })
        .collect();
    Value::Array(v)
}

fn parse_sql(sql: &str, dialect: Option<&str>) -> Result<Value, String> {
    use sqlparser::dialect::*;
    let d: Box<dyn Dialect> = match dialect.unwrap_or("sql.generic") {
        "sql.sqlite" => Box::new(SQLiteDialect {}),
        "sql.postgres" => Box::new(PostgreSqlDialect {}),
        "sql.mysql" => Box::new(MySqlDialect {}),
        "sql.mssql" => Box::new(MsSqlDialect {}),
        "sql.bigquery" => Box::new(BigQueryDialect {}),
        "sql.clickhouse" => Box::new(ClickHouseDialect {}),
        "sql.duckdb" => Box::new(DuckDbDialect {}),
        "sql.snowflake" => Box::new(SnowflakeDialect {}),
        "sql.ansi" => Box::new(AnsiDialect {}),
        _ => Box::new(GenericDialect {}),
    };
    let stmts = sqlparser::parser::Parser::parse_sql(&*d, sql).map_err(|e| e.to_string())?;
    let mut v = serde_json::to_value(&stmts).map_err(|e| e.to_string())?;
    strip_tokens(&mut v);
    Ok(v)
}

fn strip_tokens(v: &mut Value) {
    match v {
        Value::Object(m) => {
            m.remove("span");
            m.retain(|k, _| !k.ends_with("_token"));
            for (_, x) in m.iter_mut() {
                strip_tokens(x);
            }
        }
        Value::Array(a) => {
            for x in a.iter_mut() {
                strip_tokens(x);
            }
        }
        _ => {}
    }
}

fn strip_spans(v: &mut Value) {
    match v {
        Value::Object(m) => {
            m.remove("span");
            m.remove("aesthetics_before");
            m.remove("aesthetics_after");
            for (_, x) in m.iter_mut() {
                strip_spans(x);
            }
        }
        Value::Array(a) => {
            for x in a.iter_mut() {
                strip_spans(x);
            }
        }
        _ => {}
    }
}

fn pl_json(prql: &str) -> Result<Value, Value> {
    let pl = prqlc::prql_to_pl(prql).map_err(errs)?;
    let s = prqlc::json::from_pl(&pl).map_err(errs)?;
    let mut v: Value = serde_json::from_str(&s).map_err(|e| json!([{"reason": e.to_string()}]))?;
    strip_spans(&mut v);
    Ok(v)
}

fn handle(req: &Value) -> Value {
    let op = req["op"].as_str().unwrap_or("");
    let target = req["target"].as_str();
    match op {
        "ping" => json!({"ok": true}),
        "compile" => {
            let prql = req["prql"].as_str().unwrap_or("");
            let o = match opts(target) {
                Ok(o) => o,
                Err(e) => return json!({"ok": false, "errors": [{"reason": e}]}),
            };
            let mut out = match prqlc::compile(prql, &o) {
                Ok(sql) => json!({"ok": true, "sql": sql}),
                Err(e) => return json!({"ok": false, "errors": errs(e)}),
            };
            if req["want_ast"].as_bool().unwrap_or(false) {
                let sql = out["sql"].as_str().unwrap().to_string();
                // dialect used for re-parsing: explicit request field, else the target
                let d = req["parse_dialect"].as_str().or(target);
                match parse_sql(&sql, d) {
                    Ok(a) => out["ast"] = a,
                    Err(e) => out["ast_error"] = json!(e),
                }
            }
            if req["want_rq"].as_bool().unwrap_or(false) {
                let rq = prqlc::prql_to_pl(prql)
                    .and_then(prqlc::pl_to_rq)
                    .and_then(|rq| prqlc::json::from_rq(&rq));
                match rq {
                    Ok(s) => out["rq"] = serde_json::from_str(&s).unwrap_or(Value::Null),
                    Err(e) => out["rq_errors"] = errs(e),
                }
            }
            out
        }
        "rq" => {
            let prql = req["prql"].as_str().unwrap_or("");
            let rq = prqlc::prql_to_pl(prql)
                .and_then(prqlc::pl_to_rq)
                .and_then(|rq| prqlc::json::from_rq(&rq));
            match rq {
                Ok(s) => json!({"ok": true, "rq": serde_json::from_str::<Value>(&s).unwrap_or(Value::Null)}),
                Err(e) => json!({"ok": false, "errors": errs(e)}),
            }
        }
        "rq_to_sql" => {
            let o = match opts(target) {
                Ok(o) => o,
                Err(e) => return json!({"ok": false, "errors": [{"reason": e}]}),
            };
            let s = if req["rq"].is_string() {
                req["rq"].as_str().unwrap().to_string()
            } else {
                req["rq"].to_string()
            };
            match prqlc::json::to_rq(&s).and_then(|rq| prqlc::rq_to_sql(rq, &o)) {
                Ok(sql) => json!({"ok": true, "sql": sql}),
                Err(e) => json!({"ok": false, "errors": errs(e)}),
            }
        }
        "pl_json_to_rq" => {
            // staged API: PL given as a JSON document
            let s = if req["pl"].is_string() { req["pl"].as_str().unwrap().to_string() } else { req["pl"].to_string() };
            match prqlc::json::to_pl(&s).and_then(prqlc::pl_to_rq).and_then(|rq| prqlc::json::from_rq(&rq)) {
                Ok(s) => json!({"ok": true, "rq": serde_json::from_str::<Value>(&s).unwrap_or(Value::Null)}),
                Err(e) => json!({"ok": false, "errors": errs(e)}),
            }
        }
        "lex" => {
            // tokens of a source text (kinds and byte spans), or the lexer's errors
            let prql = req["prql"].as_str().unwrap_or("");
            match prqlc_parser::lexer::lex_source(prql) {
                Ok(t) => json!({"ok": true, "tokens": serde_json::to_value(&t.0).unwrap_or(Value::Null)}),
                Err(e) => json!({"ok": false, "errors": e.iter().map(|x| format!("{:?}", x)).collect::<Vec<_>>()}),
            }
        }
        "pl_raw" => {
            let prql = req["prql"].as_str().unwrap_or("");
            match prqlc::prql_to_pl(prql).and_then(|pl| prqlc::json::from_pl(&pl)) {
                Ok(s) => json!({"ok": true, "pl": serde_json::from_str::<Value>(&s).unwrap_or(Value::Null)}),
                Err(e) => json!({"ok": false, "errors": errs(e)}),
            }
        }
        "pl" => {
            let prql = req["prql"].as_str().unwrap_or("");
            match pl_json(prql) {
                Ok(v) => json!({"ok": true, "pl": v}),
                Err(e) => json!({"ok": false, "errors": e}),
            }
        }
        "fmt" => {
            // format, re-parse, compare trees modulo spans; format again (idempotence)
            let prql = req["prql"].as_str().unwrap_or("");
            let pl = match prqlc::prql_to_pl(prql) {
                Ok(p) => p,
                Err(e) => return json!({"ok": false, "stage": "parse", "errors": errs(e)}),
            };
            let f1 = match prqlc::pl_to_prql(&pl) {
                Ok(s) => s,
                Err(e) => return json!({"ok": false, "stage": "fmt", "errors": errs(e)}),
            };
            let t0 = pl_json(prql).unwrap_or(Value::Null);
            let (t1, reparse_err) = match pl_json(&f1) {
                Ok(v) => (v, Value::Null),
                Err(e) => (Value::Null, e),
            };
            let f2 = prqlc::prql_to_pl(&f1).and_then(|p| prqlc::pl_to_prql(&p)).ok();
            json!({"ok": true, "formatted": f1, "same_tree": t0 == t1 && t0 != Value::Null,
                   "reparse_errors": reparse_err, "idempotent": f2.as_deref() == Some(f1.as_str()),
                   "tree_before": t0, "tree_after": t1})
        }
        "parse_sql" => {
            let sql = req["sql"].as_str().unwrap_or("");
            match parse_sql(sql, req["dialect"].as_str()) {
                Ok(a) => json!({"ok": true, "ast": a}),
                Err(e) => json!({"ok": false, "errors": [{"reason": e}]}),
            }
        }
        _ => json!({"ok": false, "errors": [{"reason": format!("unknown op {op}")}]}),
    }
}

fn main() {
    std::panic::set_hook(Box::new(|info| {
        let loc = info
            .location()
            .map(|l| format!("{}:{}:{}", l.file(), l.line(), l.column()))
            .unwrap_or_default();
        let msg = if let Some(s) = info.payload().downcast_ref::<&str>() {
            s.to_string()
        } else if let Some(s) = info.payload().downcast_ref::<String>() {
            s.clone()
        } else {
            "<non-string panic>".to_string()
        };
        *LAST_PANIC.lock().unwrap() = Some(format!("{msg} @ {loc}"));
    }));
    let stdin = std::io::stdin();
    let stdout = std::io::stdout();
    for line in stdin.lock().lines() {
        let line = match line {
            Ok(l) => l,
            Err(_) => break,
        };
        if line.trim().is_empty() {
            continue;
        }
        let resp = match serde_json::from_str::<Value>(&line) {
            Ok(req) => match catch_unwind(AssertUnwindSafe(|| handle(&req))) {
                Ok(v) => v,
                Err(_) => {
                    let p = LAST_PANIC.lock().unwrap().take().unwrap_or_default();
                    json!({"ok": false, "panic": p})
                }
            },
            Err(e) => json!({"ok": false, "errors": [{"reason": format!("bad request: {e}")}]}),
        };
        let mut o = stdout.lock();
        let _ = writeln!(o, "{}", resp);
        let _ = o.flush();
    }
}
