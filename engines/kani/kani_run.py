"""cargo kani runner: builds the harness crate against /repo's current tree, one verdict per harness."""
import os
import re
import subprocess
import time

import core

HERE = os.path.dirname(os.path.abspath(__file__))


def run_kani(timeout_s=1500):
    tgt = os.path.join(core.BUILD, "kani")
    os.makedirs(tgt, exist_ok=True)
    lock = os.path.join(HERE, "Cargo.lock")
    data = open(os.path.join(core.REPO, "Cargo.lock"), "rb").read()
    if not os.path.exists(lock) or open(lock, "rb").read() != data:
        open(lock, "wb").write(data)
    env = dict(os.environ, CARGO_NET_OFFLINE="true")
    env.pop("RUSTUP_TOOLCHAIN", None)
    t = time.time()
    cmd = ["cargo", "kani", "--target-dir", tgt, "--output-format", "terse"]
    try:
        r = subprocess.run(cmd, cwd=HERE, env=env, stdout=subprocess.PIPE, stderr=subprocess.STDOUT, text=True, timeout=timeout_s)
    except subprocess.TimeoutExpired as e:
        return {"error": "timeout", "output": (e.stdout or "")[-3000:] if isinstance(e.stdout, str) else ""}, time.time() - t
    out = r.stdout
    res = {}
    cur = None
    for line in out.splitlines():
        m = re.match(r"Checking harness (\S+?)\.\.\.", line)
        if m:
            cur = m.group(1)
            res[cur] = {"verdict": None, "covers": []}
        m = re.match(r"VERIFICATION:- (\w+)", line)
        if m and cur:
            res[cur]["verdict"] = m.group(1)
        m = re.search(r"\*\* (\d+) of (\d+) cover properties satisfied", line)
        if m and cur:
            res[cur]["covers"] = [int(m.group(1)), int(m.group(2))]
        if "Failed Checks:" in line and cur:
            res[cur].setdefault("failed", []).append(line.strip())
    if not res:
        return {"error": "no harness output", "output": out[-3000:]}, time.time() - t
    return res, time.time() - t
