//! Kani harnesses: a second opinion (CBMC over the compiled code) on the formatter's parenthesis kernel,
//! which mirsym decides from MIR. Same property, same documented table.
#![allow(dead_code)]

#[cfg(kani)]
mod harness {
    use prqlc::pr::{BinOp, UnOp};

    fn binop(i: u8) -> BinOp {
        match i {
            0 => BinOp::Mul,
            1 => BinOp::DivInt,
            2 => BinOp::DivFloat,
            3 => BinOp::Mod,
            4 => BinOp::Pow,
            5 => BinOp::Add,
            6 => BinOp::Sub,
            7 => BinOp::Eq,
            8 => BinOp::Ne,
            9 => BinOp::Gt,
            10 => BinOp::Lt,
            11 => BinOp::Gte,
            12 => BinOp::Lte,
            13 => BinOp::RegexSearch,
            14 => BinOp::And,
            15 => BinOp::Or,
            _ => BinOp::Coalesce,
        }
    }

    fn unop(i: u8) -> UnOp {
        match i {
            0 => UnOp::Neg,
            1 => UnOp::Add,
            2 => UnOp::Not,
            _ => UnOp::EqSelf,
        }
    }

    /// documented precedence (reference/syntax/operators.md): higher binds tighter
    fn doc_prec(op: BinOp) -> u8 {
        match op {
            BinOp::Pow => 6,
            BinOp::Mul | BinOp::DivInt | BinOp::DivFloat | BinOp::Mod => 5,
            BinOp::Add | BinOp::Sub => 4,
            BinOp::Eq | BinOp::Ne | BinOp::Gt | BinOp::Lt | BinOp::Gte | BinOp::Lte | BinOp::RegexSearch => 3,
            BinOp::Coalesce => 2,
            BinOp::And => 1,
            BinOp::Or => 0,
        }
    }

    /// the documented grammar requires parentheses around a binary child `c` of a binary parent `p`
    fn need_ref(p: BinOp, c: BinOp, left: bool) -> bool {
        let (pp, pc) = (doc_prec(p), doc_prec(c));
        if pc < pp {
            return true;
        }
        if pc > pp {
            return false;
        }
        let right_assoc = matches!(p, BinOp::Pow);
        !((left && !right_assoc) || (!left && right_assoc))
    }

    #[kani::proof]
    #[kani::unwind(4)]
    fn fmt_paren_binary_in_binary() {
        let p: u8 = kani::any();
        let c: u8 = kani::any();
        kani::assume(p < 17 && c < 17);
        let left: bool = kani::any();
        let ps = prqlc::kani_ast::binding_strength_of_binary(binop(p));
        let r = prqlc::kani_ast::needs_parenthesis_of(Some(binop(c)), None, ps, if left { 1 } else { 2 }, false);
        kani::cover!(r, "parentheses emitted for some pair");
        kani::cover!(!r, "parentheses omitted for some pair");
        if !r {
            assert!(!need_ref(binop(p), binop(c), left), "parentheses omitted although the documented table needs them");
        }
    }

    #[kani::proof]
    #[kani::unwind(4)]
    fn fmt_paren_unary_argument_of_call() {
        // inside call arguments (unbound_expr) a leading -, + or == must be parenthesised
        let u: u8 = kani::any();
        kani::assume(u < 4);
        let ctx: u8 = kani::any();
        kani::assume(ctx >= 10);
        let pos: u8 = kani::any();
        kani::assume(pos < 3);
        let r = prqlc::kani_ast::needs_parenthesis_of(None, Some(unop(u)), ctx, pos, true);
        kani::cover!(!r, "some unary argument is written bare");
        if !r {
            assert!(matches!(unop(u), UnOp::Not), "a unary argument that can bind to the left is written bare");
        }
    }

    #[kani::proof]
    #[kani::unwind(4)]
    fn fmt_paren_binary_in_unary() {
        let c: u8 = kani::any();
        kani::assume(c < 17);
        let pos: u8 = kani::any();
        kani::assume(pos < 3);
        // a unary parent writes its operand with strength 20 (or more, if inherited)
        let ctx: u8 = kani::any();
        kani::assume(ctx >= 20);
        let r = prqlc::kani_ast::needs_parenthesis_of(Some(binop(c)), None, ctx, pos, false);
        kani::cover!(r, "reachable");
        assert!(r, "binary operand of a unary operator written without parentheses");
    }
}
