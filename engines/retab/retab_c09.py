"""C09 (retab part): every string the compiler would emit as a bare identifier is read by the engine as the
identifier of exactly that name.  sqlite: oracle probed on the linked SQLite; generic: lexical shape only."""
import re
import sqlite3
import time

import z3

import core
from retab import *  # noqa

SQLITE_DOC_KEYWORDS = """ABORT ACTION ADD AFTER ALL ALTER ALWAYS ANALYZE AND AS ASC ATTACH AUTOINCREMENT BEFORE BEGIN BETWEEN BY CASCADE CASE CAST
CHECK COLLATE COLUMN COMMIT CONFLICT CONSTRAINT CREATE CROSS CURRENT CURRENT_DATE CURRENT_TIME CURRENT_TIMESTAMP DATABASE DEFAULT DEFERRABLE
DEFERRED DELETE DESC DETACH DISTINCT DO DROP EACH ELSE END ESCAPE EXCEPT EXCLUDE EXCLUSIVE EXISTS EXPLAIN FAIL FILTER FIRST FOLLOWING FOR
FOREIGN FROM FULL GENERATED GLOB GROUP GROUPS HAVING IF IGNORE IMMEDIATE IN INDEX INDEXED INITIALLY INNER INSERT INSTEAD INTERSECT INTO IS
ISNULL JOIN KEY LAST LEFT LIKE LIMIT MATCH MATERIALIZED NATURAL NO NOT NOTHING NOTNULL NULL NULLS OF OFFSET ON OR ORDER OTHERS OUTER OVER
PARTITION PLAN PRAGMA PRECEDING PRIMARY QUERY RAISE RANGE RECURSIVE REFERENCES REGEXP REINDEX RELEASE RENAME REPLACE RESTRICT RETURNING RIGHT
ROLLBACK ROW ROWS SAVEPOINT SELECT SET TABLE TEMP TEMPORARY THEN TIES TO TRANSACTION TRIGGER UNBOUNDED UNION UNIQUE UPDATE USING VACUUM VALUES
VIEW VIRTUAL WHEN WHERE WINDOW WITH WITHOUT TRUE FALSE ROWID OID _ROWID_""".split()


def bare_in_code(drv, word, target):
    """ask the real compiler whether it emits `word` bare (column position) for this target"""
    r = drv.compile(f"from t | select {{t.`{word}`}}", target)
    if not r.get("ok"):
        return None
    sql = r["sql"]
    if re.search(r"SELECT\s+" + re.escape(word) + r"\s+FROM", sql):
        return True
    if re.search(r'SELECT\s+["`\[]' + re.escape(word) + r'["`\]]\s+FROM', sql):
        return False
    return None


def bare_table(drv, words, target):
    """one compile for the whole universe: {word: True (bare) | False (quoted)}; words the compiler rejects fall back
    to individual probes"""
    out = {}
    words = list(words)
    prog = "from t | select {" + ", ".join(f"t.`{w}`" for w in words) + "}"
    r = drv.compile(prog, target)
    if r.get("ok"):
        m = re.match(r"^SELECT\s+(.*?)\s+FROM\s+t$", r["sql"], re.S)
        items = [x.strip() for x in m.group(1).split(",")] if m else []
        if len(items) == len(words):
            for w, it in zip(words, items):
                if it == w:
                    out[w] = True
                elif len(it) == len(w) + 2 and it[1:-1] == w and it[0] in '"`[':
                    out[w] = False
                else:
                    out[w] = bare_in_code(drv, w, target)
            return out
    for w in words:
        out[w] = bare_in_code(drv, w, target)
    return out


def replay_ident(drv, word, target="sql.sqlite"):
    """compile a select of the column named `word` and run it on a SQLite table having exactly that column"""
    r = drv.compile(f"from t | select {{t.`{word}`}}", target)
    if not r.get("ok"):
        return None, r
    con = sqlite3.connect(":memory:")
    try:
        con.execute('CREATE TABLE t("' + word.replace('"', '""') + '" INTEGER)')
        con.execute("INSERT INTO t VALUES (41)")
        try:
            rows = con.execute(r["sql"]).fetchall()
        except sqlite3.Error as e:
            return False, {"sql": r["sql"], "sqlite_error": str(e)}
        return rows == [(41,)], {"sql": r["sql"], "rows": rows}
    finally:
        con.close()


def run(R, tier, seed, drv_path):
    t0 = time.time()
    drv = core.Driver(drv_path)
    pat = extract_regex("prqlc/prqlc/src/utils/mod.rs", "valid_ident")
    try:
        code_re = parse_regex(pat)
    except RegexError as e:
        R.engine_error(f"retab: regex {pat!r} outside the translated subset: {e}")
        return
    R.cov["functions_encoded"] += [f"utils::valid_ident pattern {pat!r} (translated to a z3 regular expression)",
                                   "sql::gen_expr::translate_ident_part keyword decision (tabulated through the real compiler over the candidate universe)"]
    # translator cross-check against python's re on probe strings
    x = z3.String("x")
    for probe in ["a", "_a1", "$a", "a$b", "A", "1a", "", "*", "ab_c9", "a-b", "a b", "é", "**", "a*"]:
        s = z3.Solver()
        s.add(x == z3.StringVal(probe), z3.InRe(x, code_re))
        got = s.check() == z3.sat
        if got != py_full_match(pat, probe):
            R.engine_error(f"retab: translator disagrees with python re on {probe!r}")
            return
    universe = {w.lower() for w in (sqlparser_keywords() | repo_keyword_words() | set(SQLITE_DOC_KEYWORDS))}
    universe = sorted(w for w in universe if py_full_match(pat, w))
    lower_id = z3.Concat(z3.Union(z3.Range("a", "z"), z3.Re("_")),
                         z3.Star(z3.Union(z3.Range("a", "z"), z3.Range("0", "9"), z3.Re("_"), z3.Re("$"))))
    refused = sorted(w for w in universe if sqlite_refuses(w))
    results = {}
    for target in ("sql.sqlite", "sql.generic"):
        table = bare_table(drv, universe, target)
        quoted = sorted(w for w in universe if table[w] is False)
        bare = code_re
        if quoted:
            bare = z3.Intersect(bare, z3.Complement(lits(quoted)))
        bare = z3.Intersect(bare, z3.Complement(z3.Re("*")))      # `*` is the wildcard, not an identifier
        safe = lower_id
        if target == "sql.sqlite" and refused:
            safe = z3.Intersect(safe, z3.Complement(lits(refused)))
        lang = z3.Intersect(bare, z3.Complement(safe))
        # vacuity twin: the bare language itself is inhabited
        v, w, dt = exists_in(bare)
        R.q(v, dt)
        if v != "sat":
            R.engine_error(f"retab/{target}: bare language is empty or unknown ({v}) - vacuous")
            continue
        classes = []
        excl = lang
        for _ in range(12):
            v, w, dt = exists_in(excl)
            R.q(v, dt)
            if v == "unknown":
                R.engine_error(f"retab/{target}: solver returned unknown")
                break
            if v == "unsat":
                break
            if w.startswith("$"):
                cls = "leading_dollar"
                excl = z3.Intersect(excl, z3.Complement(z3.Concat(z3.Re("$"), z3.Full(z3.ReSort(z3.StringSort())))))
            elif w in refused:
                cls = f"reserved:{w}"
                excl = z3.Intersect(excl, z3.Complement(z3.Re(w)))
            else:
                cls = f"other:{w}"
                excl = z3.Intersect(excl, z3.Complement(z3.Re(w)))
            ok, info = replay_ident(drv, w, target)
            classes.append((cls, w, ok, info))
            if ok is False:
                sig = {"engine": "retab", "kind": "bare_identifier_misread", "class": cls.split(":")[0], "target": target}
                if cls.startswith("reserved"):
                    sig["word"] = w
                R.violation(sig, f"{target}: identifier `{w}` is emitted bare but SQLite does not read it as the column of that name ({info})",
                            {"prql": f"from t | select {{t.`{w}`}}", "features": ["target:" + target], "word": w, "info": info})
            elif ok is None:
                R.engine_error(f"retab/{target}: witness {w!r} could not be compiled for replay: {info}")
            else:
                R.engine_error(f"retab/{target}: solver witness {w!r} ({cls}) is read correctly by SQLite: oracle or tabulation is wrong")
        results[target] = {"quoted_by_code": len(quoted), "witness_classes": [(c, w) for c, w, _, _ in classes]}
        R.sample({"target": target, "query": "exists s: s in L(valid_ident) minus code-keywords minus {*}, and s not in SAFE", "pattern": pat,
                  "witnesses": [(c, w) for c, w, _, _ in classes] or "unsat: every bare identifier is safe"})
    R.cov.setdefault("bounds", {}).update({"retab": "all strings (no length bound); keyword decisions tabulated for %d candidate words (sqlparser ALL_KEYWORDS + every word literal of sql/keywords.rs + SQLite's documented keywords) - words outside the universe are non-keywords for the code (finite table) and are assumed non-reserved for SQLite" % len(universe),
                                           "sqlite_refused_words": len(refused)})
    R.cov["retab"] = results
    drv.close()
    core.log(f"[retab-c09] {time.time()-t0:.1f}s {results}")
