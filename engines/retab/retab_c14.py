"""C14 (retab part): every identifier the formatter prints without backticks re-lexes as that identifier."""
import time

import z3

import core
from retab import *  # noqa

# language reference (syntax/keywords.md + literals): words that are not identifiers
DOC_KEYWORDS = ["let", "into", "case", "prql", "type", "module", "internal", "func", "import", "enum", "true", "false", "null"]


def run(R, tier, seed, drv_path):
    t0 = time.time()
    drv = core.Driver(drv_path)
    pat = extract_regex("prqlc/prqlc/src/codegen/ast.rs", "valid_prql_ident")
    kws = extract_str_set("prqlc/prqlc/src/codegen/ast.rs", "keywords")
    try:
        code_re = parse_regex(pat)
    except RegexError as e:
        R.engine_error(f"retab-c14: regex {pat!r} outside the translated subset: {e}")
        return
    R.cov["functions_encoded"] += [f"codegen::ast::valid_prql_ident pattern {pat!r} (z3 regular expression)", f"codegen::ast::keywords() = {kws}",
                                   "codegen::ast::write_ident_part (bare iff match and not keyword)"]
    x = z3.String("x")
    for probe in ["a", "_a1", "$a", "a$b", "A", "1a", "", "*", "ab_c9", "a-b", "a b", "**"]:
        s = z3.Solver()
        s.add(x == z3.StringVal(probe), z3.InRe(x, code_re))
        if (s.check() == z3.sat) != py_full_match(pat, probe):
            R.engine_error(f"retab-c14: translator disagrees with python re on {probe!r}")
            return
    alpha = z3.Union(z3.Range("a", "z"), z3.Range("A", "Z"), z3.Re("_"))
    alnum = z3.Union(alpha, z3.Range("0", "9"))
    safe = z3.Intersect(z3.Concat(alpha, z3.Star(alnum)), z3.Complement(lits(DOC_KEYWORDS)))
    bare = z3.Intersect(code_re, z3.Complement(lits(kws))) if kws else code_re
    bare = z3.Intersect(bare, z3.Complement(z3.Re("*")))
    v, w, dt = exists_in(bare)
    R.q(v, dt)
    if v != "sat":
        R.engine_error("retab-c14: bare language empty/unknown (vacuous)")
        return
    lang = z3.Intersect(bare, z3.Complement(safe))
    classes = []
    for _ in range(20):
        v, w, dt = exists_in(lang)
        R.q(v, dt)
        if v == "unknown":
            R.engine_error("retab-c14: solver unknown")
            break
        if v == "unsat":
            break
        if "$" in w:
            cls = "contains_dollar"
            anyc = z3.Full(z3.ReSort(z3.StringSort()))
            lang = z3.Intersect(lang, z3.Complement(z3.Concat(anyc, z3.Re("$"), anyc)))
        else:
            cls = f"word:{w}"
            lang = z3.Intersect(lang, z3.Complement(z3.Re(w)))
        prog = f"from t\nselect {{t.`{w}`}}\n"
        r = drv.req(op="fmt", prql=prog)
        classes.append((cls, w))
        if not r.get("ok"):
            R.engine_error(f"retab-c14: witness {w!r} could not be formatted: {r}")
            continue
        if not r.get("same_tree"):
            sig = {"engine": "retab", "kind": "fmt_ident_bare", "class": cls.split(":")[0]}
            if cls.startswith("word"):
                sig["word"] = w
            R.violation(sig, f"formatter prints identifier `{w}` without backticks: {r['formatted']!r} does not parse back to the same tree ({str(r.get('reparse_errors'))[:150]})",
                        {"prql": prog, "formatted": r["formatted"], "word": w, "reparse_errors": r.get("reparse_errors")})
        else:
            R.engine_error(f"retab-c14: witness {w!r} ({cls}) formats and re-parses fine: oracle too strict")
    R.sample({"query": "exists s: s in L(valid_prql_ident) minus keywords() minus {*}, s not in [A-Za-z_][A-Za-z0-9_]* minus documented keywords", "pattern": pat, "keywords": kws,
              "witness_classes": classes or "unsat"})
    R.cov.setdefault("bounds", {})["retab"] = "all strings, no length bound"
    drv.close()
    core.log(f"[retab-c14] {time.time()-t0:.1f}s {classes}")
