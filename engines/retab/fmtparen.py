"""K-fmt-paren: the formatter's needs_parenthesis / binding_strength / associativity / can_bind_left, executed
from the current tree's MIR with symbolic operators and context; the documented PRQL precedence table is the oracle."""
import os
import sys
import time

import z3

import core

sys.path.insert(0, os.path.join(core.VERIF, "engines", "mirsym"))
import kernels  # noqa: E402
import kchecks  # noqa: E402
from kernels import check  # noqa: E402
from sym import *  # noqa: E402,F401

PR = os.path.join(core.REPO, "prqlc/prqlc-parser/src/parser/pr")
# documented table (reference/syntax/operators.md; statement of C02): higher binds tighter
DOC_PREC = {"Pow": 6, "Mul": 5, "DivInt": 5, "DivFloat": 5, "Mod": 5, "Add": 4, "Sub": 4, "Eq": 3, "Ne": 3, "Gt": 3, "Lt": 3, "Gte": 3, "Lte": 3,
            "RegexSearch": 3, "Coalesce": 2, "And": 1, "Or": 0}
OPTXT = {"Mul": "*", "DivInt": "//", "DivFloat": "/", "Mod": "%", "Pow": "**", "Add": "+", "Sub": "-", "Eq": "==", "Ne": "!=", "Gt": ">", "Lt": "<",
         "Gte": ">=", "Lte": "<=", "RegexSearch": "~=", "And": "&&", "Or": "||", "Coalesce": "??"}
UNTXT = {"Neg": "-", "Add": "+", "Not": "!", "EqSelf": "=="}


def setup_enums():
    register_enum("ExprKind", enum_from_source(os.path.join(PR, "expr.rs"), "ExprKind"))
    register_enum("BinOp", enum_from_source(os.path.join(PR, "ops.rs"), "BinOp"))
    register_enum("UnOp", enum_from_source(os.path.join(PR, "ops.rs"), "UnOp"))
    register_enum("Position", enum_from_source(os.path.join(core.REPO, "prqlc/prqlc/src/codegen/mod.rs"), "Position"))
    missing = set(VARIANTS["BinOp"]) ^ set(DOC_PREC)
    if missing:
        raise core.EngineError(f"K-fmt-paren: binary operators of the current tree differ from the documented table: {sorted(missing)}")


def kind_value(kind, opvar):
    """pr::ExprKind value of the given shape with a symbolic operator"""
    EK = VARIANTS["ExprKind"]
    i = EK.index(kind)
    leaf = SOpaque("subexpr", taint=False)
    if kind == "Binary":
        be = SAgg("struct", "BinaryExpr", {0: leaf, 1: SEnum("BinOp", opvar, {}), 2: leaf, "left": leaf, "op": SEnum("BinOp", opvar, {}), "right": leaf})
        return SEnum("ExprKind", i, {i: {0: be}})
    if kind == "Unary":
        ue = SAgg("struct", "UnaryExpr", {0: SEnum("UnOp", opvar, {}), 1: leaf, "op": SEnum("UnOp", opvar, {}), "expr": leaf})
        return SEnum("ExprKind", i, {i: {0: ue}})
    return SEnum("ExprKind", i, {i: {0: leaf}})


def field_order_check(funcs):
    """BinaryExpr / UnaryExpr field positions are read from the struct definitions of the current tree"""
    src = open(os.path.join(PR, "expr.rs")).read()
    import re
    b = re.search(r"pub struct BinaryExpr \{(.*?)\}", src, re.S).group(1)
    u = re.search(r"pub struct UnaryExpr \{(.*?)\}", src, re.S).group(1)
    bo = re.findall(r"pub (\w+):", b)
    uo = re.findall(r"pub (\w+):", u)
    return bo, uo


def run(R, tier, seed, drv_path):
    t0 = time.time()
    setup_enums()
    funcs = kernels.load(r"^needs_parenthesis$|^binding_strength$|^associativity$|^can_bind_left$|^needs_parenthesis::promoted|<impl at prqlc/prqlc/src/codegen/mod.rs[^>]*>::eq$")
    bo, uo = field_order_check(funcs)
    drv = core.Driver(drv_path)
    BO, UO, EK, POS = VARIANTS["BinOp"], VARIANTS["UnOp"], VARIANTS["ExprKind"], VARIANTS["Position"]

    def mk_kind(kind, opvar):
        v = kind_value(kind, opvar)
        i = EK.index(kind)
        if kind == "Binary":
            leaf = SOpaque("subexpr", taint=False)
            vals = {"left": leaf, "op": SEnum("BinOp", opvar, {}), "right": leaf}
            f = dict(vals)
            for n, nm in enumerate(bo):
                f[n] = vals[nm]
            return SEnum("ExprKind", i, {i: {0: SAgg("struct", "BinaryExpr", f)}})
        if kind == "Unary":
            leaf = SOpaque("subexpr", taint=False)
            vals = {"op": SEnum("UnOp", opvar, {}), "expr": leaf}
            f = dict(vals)
            for n, nm in enumerate(uo):
                f[n] = vals[nm]
            return SEnum("ExprKind", i, {i: {0: SAgg("struct", "UnaryExpr", f)}})
        return v

    def strength_exits(kind, opvar, pre):
        I = Interp(funcs, unwind=4, timeout_s=60)
        st = State()
        st.pc = list(pre)
        st.heap.append(mk_kind(kind, opvar))
        fr = I.new_frame("binding_strength", [SRef(-1, ("cell", 0))])
        st.frames.append(fr)
        I.deadline = time.time() + 60
        I.exits = []
        I.explore(st)
        kchecks._account(R, I, "K-fmt-paren")
        return [(e.pc, e.value) for e in I.exits if e.kind == "return"], I

    pop, cop = z3.BitVec("parent_op", 64), z3.BitVec("child_op", 64)
    nviol = 0
    combos = 0
    for pkind in ("Binary", "Unary", "Range", "FuncCall"):
        ppre = [z3.ULT(pop, len(BO))] if pkind == "Binary" else ([z3.ULT(pop, len(UO))] if pkind == "Unary" else [])
        pexits, _ = strength_exits(pkind, pop, ppre)
        for ckind in ("Binary", "Unary", "Range", "FuncCall", "Ident", "Literal"):
            cpre = [z3.ULT(cop, len(BO))] if ckind == "Binary" else ([z3.ULT(cop, len(UO))] if ckind == "Unary" else [])
            for ppc, pstrength in pexits:
                combos += 1
                cs = z3.BitVec("ctx_strength", 8)
                pos = z3.BitVec("position", 64)
                unb = z3.Bool("unbound_expr")
                pre = list(ppc) + cpre + [z3.UGE(cs, pstrength.t), z3.ULT(pos, 3)]
                if pkind != "FuncCall":
                    pre.append(z3.Not(unb))          # unbound_expr is only set while writing call arguments
                if pkind == "Binary":
                    pre.append(z3.Or(pos == POS.index("Left"), pos == POS.index("Right")))
                    pre.append(cs == pstrength.t)     # operands are written with exactly the parent's strength or more; equality is the tight case
                opt = SAgg("struct", "WriteOpt", {0: SOpaque("tab", False), 1: SInt(z3.BitVecVal(120, 16), 16, False), 2: SInt(z3.BitVecVal(0, 16), 16, False),
                                                  3: SInt(z3.BitVecVal(120, 16), 16, False), 4: SInt(cs, 8, False), 5: SEnum("Position", pos, {}), 6: SBool(unb)})
                expr = SAgg("struct", "Expr", {0: mk_kind(ckind, cop), 1: SOpaque("span", False), 2: SOpaque("alias", False), 3: SOpaque("doc", False)})
                I = Interp(funcs, unwind=4, timeout_s=60)
                st = State()
                st.pc = pre
                st.heap += [expr, opt]
                st.frames.append(I.new_frame("needs_parenthesis", [SRef(-1, ("cell", 0)), SRef(-1, ("cell", 1))]))
                I.deadline = time.time() + 60
                I.exits = []
                try:
                    I.explore(st)
                except Inconclusive as e:
                    R.engine_error(f"K-fmt-paren {pkind}>{ckind}: {e}")
                    continue
                kchecks._account(R, I, "K-fmt-paren")
                for e in I.exits:
                    if e.kind != "return" or not isinstance(e.value, SBool):
                        R.engine_error(f"K-fmt-paren {pkind}>{ckind}: exit {e.kind} {e.msg}")
                        continue
                    need = need_ref(pkind, ckind, pop, cop, pos, unb, BO, UO, POS)
                    bad = z3.And(z3.Not(e.value.t), need)       # no parentheses emitted although the documented grammar needs them
                    v, model, dt = check(e.pc, bad)
                    R.q(v, dt)
                    if v == "unknown":
                        R.engine_error("K-fmt-paren: unknown")
                    if v != "sat":
                        continue
                    g = lambda t: model.eval(t, model_completion=True).as_long()
                    P_ = BO[g(pop)] if pkind == "Binary" else (UO[g(pop)] if pkind == "Unary" else pkind)
                    C_ = BO[g(cop)] if ckind == "Binary" else (UO[g(cop)] if ckind == "Unary" else ckind)
                    side = POS[g(pos)]
                    prog = witness_program(pkind, ckind, P_, C_, side)
                    r = drv.req(op="fmt", prql=prog) if prog else {}
                    if r.get("ok") and not r.get("same_tree"):
                        nviol += 1
                        R.violation({"engine": "mirsym", "kernel": "K-fmt-paren", "kind": "fmt_paren", "parent": P_, "child": C_, "side": side},
                                    f"formatter drops the parentheses of child {C_} under parent {P_} ({side}): {prog.strip()!r} -> {r['formatted'].strip()!r}",
                                    {"prql": prog, "formatted": r["formatted"], "parent": P_, "child": C_, "side": side})
                    elif r.get("ok"):
                        # reachable only with an inherited context the writer never builds, or the documented table is stricter than the parser
                        R.cov.setdefault("unobservable_models", []).append([pkind, ckind, P_, C_, side])
                    else:
                        R.engine_error(f"K-fmt-paren: witness {pkind}/{P_} > {ckind}/{C_} {side} could not be formatted: {str(r)[:200]}")
    R.sample({"kernel": "K-fmt-paren", "combinations": combos, "property": "needs_parenthesis = false  =>  the documented precedence/associativity table does not require parentheses for (parent, child, side)",
              "parents": ["Binary(op)", "Unary(op)", "Range", "FuncCall"], "children": ["Binary(op)", "Unary(op)", "Range", "FuncCall", "Ident", "Literal"], "wall_s": round(time.time() - t0, 2)})
    R.cov.setdefault("bounds", {})["K-fmt-paren"] = "all 17 binary x 4 unary operators as parent and as child, both operand sides, context strength >= the parent's, unbound_expr on/off inside call arguments"
    drv.close()
    core.log(f"[K-fmt-paren] {combos} combinations, {nviol} violations, {time.time()-t0:.1f}s")
    if tier == "thorough" or os.environ.get("VERIF_KANI") == "1":
        kani_cross_check(R, nviol)


def kani_cross_check(R, nviol_mirsym):
    """second opinion: the same property on three harnesses through Kani/CBMC over the compiled code (cfg(kani) hooks)"""
    sys.path.insert(0, os.path.join(core.VERIF, "engines", "kani"))
    import kani_run
    res, dt = kani_run.run_kani()
    R.cov["kani"] = {"seconds": round(dt, 1), "harnesses": res}
    if "error" in res:
        R.engine_error(f"kani cross-check: {res['error']}: {res.get('output', '')[-500:]}")
        return
    failed = [h for h, v in res.items() if v.get("verdict") != "SUCCESSFUL"]
    uncovered = [h for h, v in res.items() if v.get("covers") and v["covers"][0] != v["covers"][1]]
    if uncovered:
        R.engine_error(f"kani cross-check: cover properties not satisfied (vacuity) in {uncovered}")
    binary_pairs_failed = any("binary_in_binary" in h or "binary_in_unary" in h or "unary_argument" in h for h in failed)
    if failed and nviol_mirsym == 0:
        R.engine_error(f"engines disagree: Kani reports {failed} as failing while mirsym found no reproducible violation")
    if not failed and nviol_mirsym > 0:
        core.log("[kani] note: mirsym reports violations outside the three Kani harnesses' scope, or Kani disagrees")
    core.log(f"[kani] {len(res)} harnesses in {dt:.0f}s: {[(h.split('::')[-1], v.get('verdict')) for h, v in res.items()]}")


def need_ref(pkind, ckind, pop, cop, pos, unb, BO, UO, POS):
    """z3 Bool: the documented grammar requires parentheses around the child"""
    F_, T_ = z3.BoolVal(False), z3.BoolVal(True)
    if ckind in ("Ident", "Literal"):
        return F_

    def prec(opv):
        t = z3.IntVal(0)
        for i, nm in enumerate(BO):
            t = z3.If(opv == i, z3.IntVal(DOC_PREC[nm]), t)
        return t
    left, right = pos == POS.index("Left"), pos == POS.index("Right")
    if pkind == "Binary":
        if ckind == "Binary":
            pp, pc = prec(pop), prec(cop)
            p_right_assoc = pop == BO.index("Pow")
            same_level_ok = z3.Or(z3.And(left, z3.Not(p_right_assoc)), z3.And(right, p_right_assoc))
            return z3.Or(pc < pp, z3.And(pc == pp, z3.Not(same_level_ok)))
        if ckind == "Unary":
            return F_                 # unary binds tighter than every binary operator
        if ckind == "Range":
            return F_                 # range binds tighter than every binary operator
        if ckind == "FuncCall":
            return T_                 # a call is the weakest construct
    if pkind == "Unary":
        if ckind in ("Binary", "Range", "FuncCall"):
            return T_
        return F_
    if pkind == "Range":
        if ckind in ("Binary", "FuncCall"):
            return T_
        return F_                     # unary binds tighter than range
    if pkind == "FuncCall":
        if ckind == "FuncCall":
            return T_
        if ckind == "Unary":
            # a leading -, + or == would bind to the expression on its left
            return z3.And(unb, z3.Or(cop == UO.index("Neg"), cop == UO.index("Add"), cop == UO.index("EqSelf")))
        return F_
    return F_


def witness_program(pkind, ckind, P_, C_, side):
    def child():
        if ckind == "Binary":
            return f"(b {OPTXT[C_]} c)"
        if ckind == "Unary":
            return f"({UNTXT[C_]}b)"
        if ckind == "Range":
            return "(1..b)"
        if ckind == "FuncCall":
            return "(f b)"
        return "b"
    c = child()
    if pkind == "Binary":
        e = f"{c} {OPTXT[P_]} d" if side == "Left" else f"d {OPTXT[P_]} {c}"
    elif pkind == "Unary":
        e = f"{UNTXT[P_]}{c}"
    elif pkind == "Range":
        e = f"{c}..9" if side != "Right" else f"1..{c}"
    else:
        e = f"f {c}"
    if pkind != "Binary" and side in ("Left", "Right"):
        # the operand position is inherited from an enclosing binary operator
        e = f"({e}) + d" if side == "Left" else f"d + ({e})"
    return f"let f = x -> x\nfrom t\nselect {{v = ({e})}}\n"
