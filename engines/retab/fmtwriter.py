"""K-fmt-writer: how the formatter's writers hand WriteOpt down to their operands.

K-fmt-paren decides needs_parenthesis under the assumption that the writer builds the child's WriteOpt in a
particular way (operand side Left/Right only under a binary operator, unbound_expr on call arguments and on whatever
starts at the same column as such an argument, context strength at least the parent's).  This kernel discharges that
assumption on the current tree: the three writer bodies are executed from MIR with a symbolic WriteOpt, every call
that writes a child is intercepted and recorded, and the solver is asked whether any path hands a child an option
that breaks the contract.

  (a) <pr::ExprKind as WriteSource>::write   for Binary(op), Unary(op), Range, FuncCall (<= 2 positional, <= 1 named argument)
  (b) write_within                           context strength becomes max(incoming, binding_strength(parent)), rest untouched
  (c) <pr::Expr as WriteSource>::write       needs_parenthesis is asked with the incoming option, and a `true` answer is never
                                              followed by a bare write of the kind

Cuts (outside the claim): text assembly (String::new, +=, to_string are opaque), the line-width budget
(WriteOpt::consume is stubbed to succeed without touching the option; the early-return paths it guards end before the next child
is written and therefore hand out a prefix of the recorded calls), SeparatedExprs / interpolation / Func / Case writers.
"""
import os
import re
import sys
import time

import z3

import core

sys.path.insert(0, os.path.join(core.VERIF, "engines", "mirsym"))
import kernels  # noqa: E402
import kchecks  # noqa: E402
import models  # noqa: E402
from kernels import check  # noqa: E402
from sym import *  # noqa: E402,F401

import fmtparen  # noqa: E402

PR = fmtparen.PR
CODEGEN = os.path.join(core.REPO, "prqlc/prqlc/src/codegen/mod.rs")


def struct_fields(path, name):
    src = open(path).read()
    m = re.search(r"pub struct %s(?:<[^>]*>)? \{(.*?)\n\}" % re.escape(name), src, re.S)
    if not m:
        raise core.EngineError(f"K-fmt-writer: struct {name} not found in {path}")
    body = re.sub(r"//[^\n]*", "", m.group(1))
    return re.findall(r"pub (\w+):", body)


def agg(name, order, vals):
    f = dict(vals)
    for n, nm in enumerate(order):
        f[n] = vals[nm]
    return SAgg("struct", name, f)


def some(v):
    return SEnum("Option", 1, {1: {0: v}})


def none():
    return SEnum("Option", 0, {})


class Ctx:
    def __init__(self):
        self.wo = struct_fields(CODEGEN, "WriteOpt")
        need = {"context_strength", "binary_position", "unbound_expr"}
        if not need <= set(self.wo):
            raise core.EngineError(f"K-fmt-writer: WriteOpt fields of the current tree: {self.wo}")
        self.expr = struct_fields(os.path.join(PR, "expr.rs"), "Expr")
        self.bin = struct_fields(os.path.join(PR, "expr.rs"), "BinaryExpr")
        self.un = struct_fields(os.path.join(PR, "expr.rs"), "UnaryExpr")
        self.call = struct_fields(os.path.join(PR, "expr.rs"), "FuncCall")
        self.range = ["start", "end"]

    def opt(self, cs, pos, unb):
        vals = {nm: SOpaque(nm, False) for nm in self.wo}
        for nm in ("max_width", "indent", "rem_width"):
            if nm in vals:
                vals[nm] = SInt(z3.BitVecVal(120 if nm != "indent" else 0, 16), 16, False)
        vals["context_strength"] = SInt(cs, 8, False)
        vals["binary_position"] = SEnum("Position", pos, {})
        vals["unbound_expr"] = SBool(unb)
        return agg("WriteOpt", self.wo, vals)

    def opt_terms(self, o):
        """(cs, pos, unb) z3 terms of a recorded WriteOpt"""
        cs = o.f["context_strength"] if "context_strength" in o.f else o.f[self.wo.index("context_strength")]
        pos = o.f["binary_position"] if "binary_position" in o.f else o.f[self.wo.index("binary_position")]
        unb = o.f["unbound_expr"] if "unbound_expr" in o.f else o.f[self.wo.index("unbound_expr")]
        # positional keys are what MIR writes through; prefer them
        cs = o.f.get(self.wo.index("context_strength"), cs)
        pos = o.f.get(self.wo.index("binary_position"), pos)
        unb = o.f.get(self.wo.index("unbound_expr"), unb)
        pd = pos.disc if not isinstance(pos.disc, int) else z3.BitVecVal(pos.disc, 64)
        return cs.t, pd, unb.t


def leaf(label):
    return SOpaque(label, taint=False)


def parent_kind(C, kind, opvar, nargs=2, nnamed=1, has_start=True, has_end=True):
    EK = VARIANTS["ExprKind"]
    i = EK.index(kind)
    if kind == "Binary":
        v = agg("BinaryExpr", C.bin, {"left": leaf("left"), "op": SEnum("BinOp", opvar, {}), "right": leaf("right")})
        return SEnum("ExprKind", i, {i: {0: v}}), ["left", "right"]
    if kind == "Unary":
        v = agg("UnaryExpr", C.un, {"op": SEnum("UnOp", opvar, {}), "expr": leaf("operand")})
        return SEnum("ExprKind", i, {i: {0: v}}), ["operand"]
    if kind == "Range":
        v = agg("Range", C.range, {"start": some(leaf("start")) if has_start else none(), "end": some(leaf("end")) if has_end else none()})
        return SEnum("ExprKind", i, {i: {0: v}}), (["start"] if has_start else []) + (["end"] if has_end else [])
    if kind == "FuncCall":
        named = [SAgg("tuple", "", {0: SOpaque(f"name{j}", False), 1: leaf(f"named{j}")}) for j in range(nnamed)]
        args = [leaf(f"arg{j}") for j in range(nargs)]
        v = agg("FuncCall", C.call, {"name": leaf("callee"), "args": SVec(args), "named_args": SVec(named)})
        return SEnum("ExprKind", i, {i: {0: v}}), ["callee"] + [f"named{j}" for j in range(nnamed)] + [f"arg{j}" for j in range(nargs)]
    raise ValueError(kind)


def base_stubs():
    def consume(I, st, a):
        return some(a[1])

    def ident(I, st, a):
        return a[0]

    def into_iter(I, st, a):
        v = models.deref(I, st, a[0])
        if isinstance(v, SVec):
            return SIter(v.items, 0)
        raise Inconclusive(f"into_iter of {v}")
    stubs = {}
    for k in ("&str", "&std::string::String", "std::string::String", "&Cow<'_, str>"):
        stubs[f"WriteOpt::consume::<{k}>"] = consume
    stubs["<Box<prqlc_parser::parser::pr::Expr> as AsRef<prqlc_parser::parser::pr::Expr>>::as_ref"] = ident
    stubs["<&std::collections::HashMap<std::string::String, prqlc_parser::parser::pr::Expr> as IntoIterator>::into_iter"] = into_iter
    stubs["<&Vec<prqlc_parser::parser::pr::Expr> as IntoIterator>::into_iter"] = into_iter
    stubs["<std::collections::hash_map::Iter<'_, std::string::String, prqlc_parser::parser::pr::Expr> as Iterator>::next"] = models.m_iter_next
    stubs["<std::slice::Iter<'_, prqlc_parser::parser::pr::Expr> as Iterator>::next"] = models.m_iter_next
    stubs["std::string::String::new"] = lambda I, st, a: SOpaque("text", False)
    stubs["<std::string::String as AddAssign<&str>>::add_assign"] = lambda I, st, a: SUnit()
    stubs["write_ident_part"] = lambda I, st, a: SOpaque("text", False)
    return stubs


def explore(R, funcs, stubs, fname, args, heap, pre, label, unwind=6):
    I = Interp(funcs, stubs=stubs, unwind=unwind, timeout_s=120)
    st = State()
    st.pc = list(pre)
    st.heap += heap
    st.frames.append(I.new_frame(fname, args))
    I.deadline = time.time() + 120
    I.exits = []
    try:
        I.explore(st)
    except Inconclusive as e:
        R.engine_error(f"K-fmt-writer {label}: {e}")
        return None
    kchecks._account(R, I, "K-fmt-writer")
    bad = [e for e in I.exits if e.kind not in ("return",)]
    if bad:
        R.engine_error(f"K-fmt-writer {label}: exit {bad[0].kind} {bad[0].msg}")
        return None
    tainted = sorted(I.stats["unmodelled"])
    if tainted:
        R.cov.setdefault("K-fmt-writer_unmodelled_calls", sorted(set(R.cov.get("K-fmt-writer_unmodelled_calls", [])) | set(tainted)))
    return I


def witness(kind, role, op_txt, what):
    """program whose formatting exercises the broken hand-over (replayed through the real formatter)"""
    head = "let f = a b -> a\nlet g = a b c -> a\nfrom t\n"
    progs = []
    if kind == "Binary":
        o = op_txt or "+"
        progs += [f"select {{v = (g 1 (-b {o} c) 2)}}", f"select {{v = (g 1 (b {o} (-c)) 2)}}", f"select {{v = ((b {o} c) {o} d)}}", f"select {{v = (b {o} (c {o} d))}}",
                  f"select {{v = (g 1 (+b {o} c) 2)}}",
                  # the node as left / right operand of an enclosing binary operator inside a call argument (incoming operand side Left / Right)
                  f"select {{v = (g 1 (-b {o} c || d) 2)}}", f"select {{v = (g 1 (-b {o} c {o} d) 2)}}", f"select {{v = (g 1 (d || -b {o} c) 2)}}",
                  f"select {{v = (g 1 (-b {o} c || d || e) 2)}}", f"sort (-b {o} c || d)", f"filter (==b {o} c || d)"]
    if kind == "Unary":
        o = op_txt or "-"
        progs += [f"select {{v = ({o}(b ** c) ** d)}}", f"select {{v = d ** ({o}(b ** c))}}", f"select {{v = ({o}(b + c)) + d}}", f"select {{v = (g 1 ({o}(-b)) 2)}}"]
    if kind == "Range":
        progs += ["select {v = (g 1 (-b..c) 2)}", "select {v = ((b ** c)..d) ** e}", "select {v = e ** (d..(b ** c))}", "select {v = (g 1 (b..(-c)) 2)}"]
    if kind == "FuncCall":
        progs += ["select {v = (g 1 (-b) 2)}", "select {v = (g (-b) 1 2)}", "select {v = (g 1 2 (-b))}", "select {v = (g (+b) (==c) 2)}", "select {v = ((f (b ** c) 1) ** d)}",
                  "select {v = d ** (f (b ** c) 1)}", "let h = a x:0 -> a\nfrom t\nselect {v = (h x:(-b) 1)}", "select {v = ((f b 1) + 2)}",
                  "let h = a x:0 -> a\nfrom t\nselect {v = (h x:(f b 1) 2)}", "let h = a x:0 -> a\nfrom t\nselect {v = (h x:(b + c) 2)}",
                  "let h = a x:0 -> a\nfrom t\nselect {v = (h x:(b ?? c) 2)}"]
    if kind == "Expr":
        progs += ["select {v = (b + c) * d}", "select {v = d * (b + c)}", "select {v = (g 1 (-b) 2)}", "select {v = -(b + c)}", "select {v = (b - c) - d, w = b - (c - d)}",
                  "select {v = (f (g 1 2 3) 1)}"]
    if kind == "within":
        progs += ["select {v = (b + c) * d}", "select {v = -(b + c)}", "select {v = (f (g 1 2 3) 1)}", "select {v = ((b + c)..d)}", "select {v = 2 ** (b * c)}"]
    return [(head + p + "\n") if not p.startswith("let ") else ("let f = a b -> a\nlet g = a b c -> a\n" + p + "\n") for p in progs]


def report(R, drv, kind, role, op_txt, what, detail):
    """replay: format witness programs with the real formatter; a violation is reported only when the program changes"""
    for prog in witness(kind, role, op_txt, what):
        r = drv.req(op="fmt", prql=prog)
        if r.get("ok") and (not r.get("same_tree") or r.get("reparse_errors")):
            R.violation({"engine": "mirsym", "kernel": "K-fmt-writer", "kind": "fmt_writer", "parent": kind, "role": role, "what": what},
                        f"formatter hands {role} of {kind} a WriteOpt with {what}: {prog.splitlines()[-1]!r} -> {r.get('formatted', '').strip().splitlines()[-1:]!r}",
                        {"prql": prog, "formatted": r.get("formatted"), "parent": kind, "role": role, "contract": what, "model": detail})
            return True
    R.cov.setdefault("unobservable_models", []).append(["K-fmt-writer", kind, role, what, detail])
    return False


def run(R, tier, seed, drv_path):
    t0 = time.time()
    fmtparen.setup_enums()
    C = Ctx()
    funcs = kernels.load(r"codegen/ast.rs[^>]*>::write($|::promoted)|^write_within($|::promoted)|^binding_strength($|::promoted)|codegen/mod.rs[^>]*>::(clone|eq|ne)$")
    kname = [n for n, f in funcs.items() if n.endswith("::write") and f.args[0][1].endswith("pr::ExprKind")]
    ename = [n for n, f in funcs.items() if n.endswith("::write") and f.args[0][1].endswith("pr::Expr")]
    if len(kname) != 1 or len(ename) != 1 or "write_within" not in funcs:
        raise core.EngineError(f"K-fmt-writer: writer bodies not found in MIR: {kname} {ename}")
    kname, ename = kname[0], ename[0]
    BO, UO, EK, POS = VARIANTS["BinOp"], VARIANTS["UnOp"], VARIANTS["ExprKind"], VARIANTS["Position"]
    LEFT, RIGHT, UNSPEC = POS.index("Left"), POS.index("Right"), POS.index("Unspecified")
    drv = core.Driver(drv_path)
    cs, pos, unb, op = z3.BitVec("ctx_strength", 8), z3.BitVec("position", 64), z3.Bool("unbound_expr"), z3.BitVec("op", 64)
    nq = 0
    nviol = 0

    def ask(pc, bad):
        nonlocal nq
        v, model, dt = check(pc, bad)
        R.q(v, dt)
        nq += 1
        if v == "unknown":
            R.engine_error("K-fmt-writer: unknown")
        return v, model

    def mval(model, t):
        x = model.eval(t, model_completion=True)
        return bool(x) if z3.is_bool(x) else x.as_long()

    # ---------------------------------------------------------------- (a) ExprKind::write
    shapes = [("Binary", {}), ("Unary", {}), ("Range", {"has_start": True, "has_end": True}), ("Range", {"has_start": True, "has_end": False}),
              ("Range", {"has_start": False, "has_end": True}), ("FuncCall", {"nargs": 2, "nnamed": 1}), ("FuncCall", {"nargs": 1, "nnamed": 0})]
    if tier == "thorough":
        shapes += [("FuncCall", {"nargs": 3, "nnamed": 2}), ("FuncCall", {"nargs": 0, "nnamed": 1})]
    for kind, kw in shapes:
        pk, roles = parent_kind(C, kind, op, **kw)
        pre = [z3.ULT(pos, 3)]
        if kind == "Binary":
            pre.append(z3.ULT(op, len(BO)))
        if kind == "Unary":
            pre.append(z3.ULT(op, len(UO)))
        stubs = base_stubs()

        def rec_within(I, st, a):
            node = models.deref(I, st, a[0])
            parent = a[1]
            st.trace.append(("within", node.label.lstrip("*") if isinstance(node, SOpaque) else repr(node), parent, models.deref(I, st, a[2])))
            return some(SOpaque("text", False))
        stubs["write_within::<prqlc_parser::parser::pr::Expr>"] = rec_within
        stubs["write_within"] = rec_within

        def rec_direct(I, st, a):
            # a child written by calling its own writer: it does not get the parent's binding strength
            node = models.deref(I, st, a[0])
            st.trace.append(("direct", node.label.lstrip("*") if isinstance(node, SOpaque) else repr(node), models.deref(I, st, a[1])))
            return some(SOpaque("text", False))
        stubs["<prqlc_parser::parser::pr::Expr as WriteSource>::write"] = rec_direct
        stubs["<pr::Expr as WriteSource>::write"] = rec_direct
        label = f"{kind}{kw or ''}"
        I = explore(R, funcs, stubs, kname, [SRef(-1, ("cell", 0)), C.opt(cs, pos, unb)], [pk], pre, label, unwind=8)
        if I is None:
            continue
        for e in I.exits:
            calls = [t for t in e.trace if isinstance(t, tuple) and t and t[0] == "within"]
            got = [c[1] for c in calls]
            direct = [t for t in e.trace if isinstance(t, tuple) and t and t[0] == "direct"]
            if direct:
                what = f"the child {direct[0][1]} written by its own writer instead of write_within (the parent's binding strength is not applied)"
                if report(R, drv, kind, direct[0][1], None, what, {}):
                    nviol += 1
                else:
                    R.engine_error(f"K-fmt-writer {label}: {what}, and no witness program changes")
                continue
            if got != roles:
                # the writer does not visit the operands in source order / skips one: structural, decided without the solver
                if report(R, drv, kind, "operands", None, f"children written in order {got}, expected {roles}", {}):
                    nviol += 1
                else:
                    R.engine_error(f"K-fmt-writer {label}: children written in order {got}, expected {roles}, and no witness program changes")
                continue
            for idx, (_, role, parent, o) in enumerate(calls):
                if not (isinstance(parent, SRef) and parent.place == ("cell", 0)):
                    bad_parent = True
                else:
                    bad_parent = False
                cs1, pos1, unb1 = C.opt_terms(o)
                contracts = []
                if bad_parent:
                    contracts.append(("a parent other than the node being written", z3.BoolVal(True)))
                if kind == "Binary":
                    contracts.append((f"operand side other than {'Left' if role == 'left' else 'Right'}", pos1 != (LEFT if role == "left" else RIGHT)))
                else:
                    contracts.append(("an operand side inherited from an enclosing binary operator", pos1 != UNSPEC))
                starts_at_parent_column = role in ("left", "start", "callee") and idx == 0
                if starts_at_parent_column:
                    contracts.append(("unbound_expr cleared although the operand starts where its parent starts", z3.And(unb, z3.Not(unb1))))
                if role.startswith("arg") or role.startswith("named"):
                    contracts.append(("unbound_expr not set on a call argument", z3.Not(unb1)))
                for what, bad in contracts:
                    v, model = ask(e.pc, bad)
                    if v != "sat":
                        continue
                    detail = {"ctx_strength": mval(model, cs), "position": POS[mval(model, pos)], "unbound_expr": mval(model, unb)}
                    op_txt = None
                    if kind == "Binary":
                        detail["op"] = BO[mval(model, op)]
                        op_txt = fmtparen.OPTXT[detail["op"]]
                    if kind == "Unary":
                        detail["op"] = UO[mval(model, op)]
                        op_txt = fmtparen.UNTXT[detail["op"]]
                    if report(R, drv, kind, role, op_txt, what, detail):
                        nviol += 1

    # ---------------------------------------------------------------- (b) write_within
    for kind in ("Binary", "Unary", "Range", "FuncCall"):
        pk, _ = parent_kind(C, kind, op)
        pre = [z3.ULT(pos, 3)] + ([z3.ULT(op, len(BO))] if kind == "Binary" else []) + ([z3.ULT(op, len(UO))] if kind == "Unary" else [])
        # the parent's strength, from the same tree
        Is = Interp(funcs, unwind=4, timeout_s=60)
        st = State()
        st.pc = list(pre)
        st.heap.append(pk)
        st.frames.append(Is.new_frame("binding_strength", [SRef(-1, ("cell", 0))]))
        Is.deadline = time.time() + 60
        Is.exits = []
        Is.explore(st)
        kchecks._account(R, Is, "K-fmt-writer")
        strength = z3.BitVecVal(0, 8)
        for e in Is.exits:
            if e.kind != "return":
                R.engine_error(f"K-fmt-writer binding_strength({kind}): {e.kind}")
                continue
            strength = z3.If(z3.And(*e.pc) if e.pc else z3.BoolVal(True), e.value.t, strength)
        stubs = base_stubs()

        def rec_write(I, st, a):
            st.trace.append(("node_write", models.deref(I, st, a[0]), models.deref(I, st, a[1])))
            return some(SOpaque("text", False))
        stubs["<T as WriteSource>::write"] = rec_write
        I = explore(R, funcs, stubs, "write_within", [SRef(-1, ("cell", 1)), SRef(-1, ("cell", 0)), C.opt(cs, pos, unb)], [pk, leaf("node")], pre, f"write_within({kind})")
        if I is None:
            continue
        for e in I.exits:
            calls = [t for t in e.trace if isinstance(t, tuple) and t and t[0] == "node_write"]
            if len(calls) != 1 or not isinstance(calls[0][1], SOpaque) or calls[0][1].label != "node":
                if report(R, drv, "within", "node", None, "the node not written exactly once", {}):
                    nviol += 1
                else:
                    R.engine_error(f"K-fmt-writer write_within({kind}): node write calls {calls}")
                continue
            cs1, pos1, unb1 = C.opt_terms(calls[0][2])
            for what, bad in (("a context strength below the parent's binding strength or below the inherited one", z3.Or(z3.ULT(cs1, strength), z3.ULT(cs1, cs))),
                              ("a changed operand side", pos1 != pos), ("unbound_expr cleared", z3.And(unb, z3.Not(unb1)))):
                v, model = ask(e.pc, bad)
                if v == "sat":
                    detail = {"parent": kind, "ctx_strength": mval(model, cs), "position": POS[mval(model, pos)], "unbound_expr": mval(model, unb)}
                    if report(R, drv, "within", "node", None, what, detail):
                        nviol += 1

    # ---------------------------------------------------------------- (c) Expr::write
    for has_alias in (False, True):
        np_ = z3.Bool("needs_parenthesis")
        stubs = base_stubs()

        def rec_np(I, st, a):
            st.trace.append(("needs_parenthesis", a[0], models.deref(I, st, a[1])))
            return SBool(np_)

        def rec_kind(I, st, a):
            st.trace.append(("kind_write", a[0], models.deref(I, st, a[1])))
            return [(z3.BoolVal(True), some(SOpaque("text", False)))]

        def rec_between(I, st, a):
            pre_, suf_ = models.deref(I, st, a[1]), models.deref(I, st, a[2])
            st.trace.append(("between", pre_.v if isinstance(pre_, SStr) else repr(pre_), suf_.v if isinstance(suf_, SStr) else repr(suf_)))
            fits = z3.Bool("fits_on_line")
            return [(fits, some(SOpaque("text", False))), (z3.Not(fits), none())]

        def rec_break(I, st, a):
            st.trace.append(("break_line",))
            return some(SOpaque("text", False))
        stubs["needs_parenthesis"] = rec_np
        stubs["<prqlc_parser::parser::pr::ExprKind as WriteSource>::write"] = rec_kind
        stubs["<prqlc_parser::parser::pr::ExprKind as WriteSource>::write_between::<&str>"] = rec_between
        stubs["break_line_within_parenthesis::<prqlc_parser::parser::pr::ExprKind>"] = rec_break
        vals = {nm: SOpaque(nm, False) for nm in C.expr}
        vals["kind"] = leaf("kind")
        vals["alias"] = some(SOpaque("alias_text", False)) if has_alias else none()
        expr = agg("Expr", C.expr, vals)
        I = explore(R, funcs, stubs, ename, [SRef(-1, ("cell", 0)), C.opt(cs, pos, unb)], [expr], [z3.ULT(pos, 3)], f"Expr::write(alias={has_alias})")
        if I is None:
            continue
        for e in I.exits:
            asks = [t for t in e.trace if isinstance(t, tuple) and t and t[0] == "needs_parenthesis"]
            bare = [t for t in e.trace if isinstance(t, tuple) and t and t[0] == "kind_write"]
            wrapped = [t for t in e.trace if isinstance(t, tuple) and t and t[0] in ("between", "break_line")]
            if len(asks) != 1 or not (isinstance(asks[0][1], SRef) and asks[0][1].place == ("cell", 0)):
                if report(R, drv, "Expr", "self", None, "needs_parenthesis not asked exactly once about the expression being written", {}):
                    nviol += 1
                else:
                    R.engine_error(f"K-fmt-writer Expr::write: needs_parenthesis calls {asks}")
                continue
            cs1, pos1, unb1 = C.opt_terms(asks[0][2])
            contracts = [("needs_parenthesis asked with a weaker context strength", z3.ULT(cs1, cs)), ("needs_parenthesis asked with a different operand side", pos1 != pos)]
            if not has_alias:
                contracts.append(("needs_parenthesis asked with unbound_expr cleared", z3.And(unb, z3.Not(unb1))))
            if bare:
                contracts.append(("the kind written bare although needs_parenthesis answered true", np_))
                cs2, pos2, unb2 = C.opt_terms(bare[0][2])
                if not has_alias:
                    contracts.append(("unbound_expr cleared before writing the kind", z3.And(unb, z3.Not(unb2))))
                contracts.append(("a changed operand side handed to the kind", pos2 != pos))
            if wrapped and any(t[0] == "between" and (t[1], t[2]) != ("(", ")") for t in wrapped):
                contracts.append(("brackets other than ( ) around the kind", z3.BoolVal(True)))
            for what, bad in contracts:
                v, model = ask(e.pc, bad)
                if v == "sat":
                    detail = {"alias": has_alias, "ctx_strength": mval(model, cs), "position": POS[mval(model, pos)], "unbound_expr": mval(model, unb)}
                    if report(R, drv, "Expr", "self", None, what, detail):
                        nviol += 1
    R.sample({"kernel": "K-fmt-writer", "queries": nq,
              "property": "every child is written through write_within with the node itself as parent; operand side is Left/Right exactly under a binary operator and Unspecified elsewhere; "
                          "unbound_expr survives on the operand that starts at its parent's column and is set on every call argument; write_within raises the context strength to the parent's; "
                          "Expr::write asks needs_parenthesis with the incoming option and never writes the kind bare after a `true` answer",
              "functions": [kname, "write_within", ename, "binding_strength"], "wall_s": round(time.time() - t0, 2)})
    R.cov.setdefault("bounds", {})["K-fmt-writer"] = ("all 17 binary and 4 unary operators (symbolic), every context strength 0..255, the three operand sides, unbound_expr on/off; "
                                                      "ranges with either end missing; calls with <= 2 positional and <= 1 named argument (thorough: <= 3 and <= 2); "
                                                      "loops over arguments unwound 8 with unwinding assertions")
    drv.close()
    core.log(f"[K-fmt-writer] {nq} queries, {nviol} violations, {time.time()-t0:.1f}s")
