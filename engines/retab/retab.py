"""retab: regex + keyword tables of the current tree as SMT regular languages.

The identifier decisions of the compiler (`translate_ident_part`) and of the formatter
(`write_ident_part`) are: bare iff REGEX matches and the word is not in a KEYWORD table.  The regex
crate cannot be executed symbolically, but the *data* is the code under test: the pattern literal is
extracted from the current source on every run and translated to a z3 regular expression; the
keyword decision is obtained from the real code through the driver for a finite candidate universe.
The solver decides inclusion in a lexical oracle over ALL strings (no length bound), posed as a
single membership  s in (BARE_code  /\\  not SAFE).
"""
import glob
import os
import re
import sqlite3
import time

import z3

import core


# ---------------------------------------------------------------- extraction
def extract_regex(path, fn_name):
    src = open(os.path.join(core.REPO, path)).read()
    m = re.search(r"fn\s+" + fn_name + r"\s*\(\)[^{]*\{(.*?)\n\}", src, re.S)
    if not m:
        raise core.EngineError(f"{fn_name} not found in {path}")
    body = m.group(1)
    lits = re.findall(r'Regex::new\(\s*r(#*)"(.*?)"\1\s*\)', body, re.S)
    if len(lits) != 1:
        raise core.EngineError(f"expected exactly one Regex::new(r\"...\") in {fn_name}, found {len(lits)}")
    return lits[0][1]


def extract_str_set(path, fn_name):
    src = open(os.path.join(core.REPO, path)).read()
    m = re.search(r"fn\s+" + fn_name + r"\s*\(\)[^{]*\{(.*?)\n\}", src, re.S)
    if not m:
        raise core.EngineError(f"{fn_name} not found in {path}")
    return sorted(set(re.findall(r'"([^"\\]*)"', m.group(1))))


# ---------------------------------------------------------------- regex -> z3
class RegexError(Exception):
    pass


def _cls_range(lo, hi):
    return z3.Range(lo, hi)


def parse_regex(pat):
    """Rust `regex` syntax subset: anchors ^ $, groups ( ) (?: ), alternation, classes with ranges and
    escapes, literals, escapes, * + ?.  Anything else raises RegexError (inconclusive, never a pass).
    Returns z3 regex for a *full match*; both ends must be anchored."""
    pos = [0]
    n = len(pat)

    def peek():
        return pat[pos[0]] if pos[0] < n else None

    def eat():
        ch = pat[pos[0]]
        pos[0] += 1
        return ch

    anchors = {"start": False, "end": False}

    def alt():
        branches = [concat()]
        while peek() == "|":
            eat()
            branches.append(concat())
        return branches[0] if len(branches) == 1 else z3.Union(*branches)

    def concat():
        items = []
        while peek() is not None and peek() not in "|)":
            items.append(repeat())
        items = [i for i in items if i is not None]
        if not items:
            return z3.Re("")
        return items[0] if len(items) == 1 else z3.Concat(*items)

    def repeat():
        a = atom()
        while peek() in ("*", "+", "?"):
            if a is None:
                raise RegexError("quantifier on anchor")
            q = eat()
            a = {"*": z3.Star, "+": z3.Plus, "?": z3.Option}[q](a)
        if peek() == "{":
            raise RegexError("counted repetition")
        return a

    def atom():
        ch = eat()
        if ch == "^":
            anchors["start"] = True
            return None
        if ch == "$":
            anchors["end"] = True
            return None
        if ch == "(":
            if pat.startswith("?:", pos[0]):
                pos[0] += 2
            elif peek() == "?":
                raise RegexError("group flags")
            r = alt()
            if peek() != ")":
                raise RegexError("unbalanced group")
            eat()
            return r
        if ch == "[":
            return char_class()
        if ch == ".":
            raise RegexError("dot")
        if ch == "\\":
            return z3.Re(escape())
        if ch in "*+?{}":
            raise RegexError(f"dangling {ch}")
        return z3.Re(ch)

    def escape():
        c = eat()
        if c in r"\.+*?()|[]{}^$-/":
            return c
        if c in "dwsDWSbB":
            raise RegexError(f"class escape \\{c}")
        raise RegexError(f"escape \\{c}")

    def char_class():
        if peek() == "^":
            raise RegexError("negated class")
        parts = []
        first = True
        while True:
            if peek() is None:
                raise RegexError("unterminated class")
            c = eat()
            if c == "]" and not first:
                break
            first = False
            if c == "\\":
                c = escape()
            if peek() == "-" and pos[0] + 1 < n and pat[pos[0] + 1] != "]":
                eat()
                hi = eat()
                if hi == "\\":
                    hi = escape()
                parts.append(_cls_range(c, hi))
            else:
                parts.append(z3.Re(c))
        return parts[0] if len(parts) == 1 else z3.Union(*parts)

    r = alt()
    if pos[0] != n:
        raise RegexError("trailing input")
    if not (anchors["start"] and anchors["end"]):
        raise RegexError("pattern is not anchored at both ends")
    return r


def py_full_match(pat, s):
    """cross-check of the translator: python's re on the same pattern (syntax subset coincides)"""
    return re.fullmatch(pat.replace("(?:", "(?:"), s) is not None


def lits(words):
    words = sorted(set(words))
    if not words:
        return z3.Re("") if False else None
    rs = [z3.Re(w) for w in words]
    return rs[0] if len(rs) == 1 else z3.Union(*rs)


def exists_in(lang, timeout_ms=60000, avoid=()):
    """sat witness of a single membership constraint; returns (verdict, witness, seconds)"""
    s = z3.Solver()
    s.set("timeout", timeout_ms)
    x = z3.String("s")
    s.add(z3.InRe(x, lang))
    for a in avoid:
        s.add(x != z3.StringVal(a))
    t = time.time()
    r = s.check()
    dt = time.time() - t
    if r == z3.sat:
        return "sat", s.model()[x].as_string(), dt
    return ("unsat" if r == z3.unsat else "unknown"), None, dt


# ---------------------------------------------------------------- candidate universes
def sqlparser_keywords():
    out = set()
    for p in glob.glob(os.path.expanduser("~/.cargo/registry/src/*/sqlparser-0.60.0/src/keywords.rs")):
        src = open(p).read()
        m = re.search(r"define_keywords!\((.*?)\);", src, re.S)
        if m:
            for w in re.findall(r"\b([A-Z][A-Z0-9_]*)\b", m.group(1)):
                out.add(w)
    return out


def repo_keyword_words():
    src = open(os.path.join(core.REPO, "prqlc/prqlc/src/sql/keywords.rs")).read()
    return set(re.findall(r'"([A-Za-z_][A-Za-z0-9_]*)"', src))


def sqlite_refuses(word):
    """does real SQLite refuse / misread the bare word as a column reference to the column of that name"""
    con = sqlite3.connect(":memory:")
    try:
        con.execute(f'CREATE TABLE x("{word}" INTEGER)')
        con.execute("INSERT INTO x VALUES (41)")
        try:
            rows = con.execute(f"SELECT {word} FROM x").fetchall()
        except sqlite3.Error:
            return True
        return rows != [(41,)]
    finally:
        con.close()
