"""Bounded symbolic semantics of the SQL subset prqlc emits (sqlite / generic), over the sqlparser AST
(serde JSON of the *re-parsed emitted text*).  Contains the binder: every table/column reference is
resolved against the scopes SQL defines; anything unbound or ambiguous raises BindError.
"""
import re

import z3
from rel import *  # noqa


class BindError(Exception):
    """reference that does not bind (or binds ambiguously) in the emitted SQL"""


class SCol:
    __slots__ = ("name", "qual")

    def __init__(self, name, qual=None):
        self.name, self.qual = name, qual

    def __repr__(self):
        return f"{self.qual}.{self.name}" if self.qual else str(self.name)


class SRel:
    def __init__(self, cols, rows, order=None):
        self.cols, self.rows, self.order = cols, rows, order   # order: (descs, keys per row) or None


AGGS = {"SUM", "COUNT", "MIN", "MAX", "AVG"}
WINONLY = {"ROW_NUMBER", "RANK", "DENSE_RANK", "LAG", "LEAD", "FIRST_VALUE", "LAST_VALUE"}


def ident_name(id_):
    return id_["value"]


def objname(parts):
    out = []
    for p in parts:
        if "Identifier" in p:
            out.append(p["Identifier"]["value"])
        else:
            raise Unsupported(f"object name part {list(p)}")
    return out


def fname(f):
    return objname(f["name"])[-1].upper()


def has_agg(node):
    """does the expression contain an aggregate call without OVER"""
    if isinstance(node, dict):
        if "Function" in node and isinstance(node["Function"], dict):
            f = node["Function"]
            if f.get("over") is None and fname(f) in AGGS:
                return True
            if f.get("over") is not None:
                # aggregate inside window arguments would be grouped-window; rare
                return any(has_agg(a) for a in _fargs(f))
        return any(has_agg(v) for v in node.values())
    if isinstance(node, list):
        return any(has_agg(v) for v in node)
    return False


def _fargs(f):
    a = f.get("args")
    if a == "None" or a is None:
        return []
    if "List" in a:
        out = []
        for x in a["List"]["args"]:
            if "Unnamed" in x:
                u = x["Unnamed"]
                if u == "Wildcard":
                    out.append("*")
                elif "Expr" in u:
                    out.append(u["Expr"])
                else:
                    raise Unsupported(f"function arg {u}")
            else:
                raise Unsupported("named function arg")
        return out
    raise Unsupported(f"function args {list(a)}")


class Ctx:
    """evaluation context for expressions: a row set with columns, optional grouping and alias scope"""

    def __init__(self, cols, rows):
        self.cols, self.rows = cols, rows
        self.members = None      # i -> list of (cond, j): rows of the group of row i (aggregate evaluation)
        self.alias = None        # name -> (ctx, colindex) for ORDER BY alias resolution
        self.only_alias = False

    def lookup(self, parts):
        if len(parts) == 1:
            nm = parts[0]
            idx = [k for k, c in enumerate(self.cols) if c.name == nm]
        elif len(parts) == 2:
            q, nm = parts
            idx = [k for k, c in enumerate(self.cols) if c.name == nm and c.qual == q]
        else:
            raise Unsupported("3-part identifier")
        return idx


class SqlSem:
    def __init__(self, db, dialect="sqlite", pre=None):
        self.db = db
        self.dialect = dialect
        self.pre = pre            # precondition sink (only for things SQL leaves undefined)
        self.nondet = []          # conditions under which the SQL result is determined (no ties among the rows an ORDER BY .. LIMIT chooses from)
        self.result_order = None
        self.notes = set()

    # ---------------------------------------------------------------- queries
    def run(self, stmts):
        if len(stmts) != 1 or "Query" not in stmts[0]:
            raise Unsupported("expected a single query statement")
        q = stmts[0]["Query"]
        if self.dialect == "sqlite":
            q = fix_sqlite_precedence(q)
        elif mixed_cmp_chain(q) and fix_sqlite_precedence(q) != q:
            raise Unsupported("unparenthesised chain mixing =/<> with </>: engines disagree on its reading")
        return self.query(q, {})

    def query(self, q, env):
        env = dict(env)
        if q.get("with"):
            if q["with"].get("recursive"):
                raise Unsupported("recursive CTE")
            for cte in q["with"]["cte_tables"]:
                name = cte["alias"]["name"]["value"]
                if cte["alias"].get("columns"):
                    raise Unsupported("CTE column list")
                env[name] = self.query(cte["query"], env)
        for k in ("fetch", "for_clause", "format_clause", "settings"):
            if q.get(k):
                raise Unsupported(f"query.{k}")
        if q.get("locks") or q.get("pipe_operators"):
            raise Unsupported("locks/pipe operators")
        order_by = None
        if q.get("order_by"):
            ob = q["order_by"]
            kind = ob.get("kind", ob)
            if "Expressions" not in kind:
                raise Unsupported("ORDER BY ALL")
            order_by = kind["Expressions"]
            if ob.get("interpolate"):
                raise Unsupported("interpolate")
        limit = offset = None
        lc = q.get("limit_clause")
        if lc:
            if "LimitOffset" not in lc:
                raise Unsupported("limit clause form")
            lo = lc["LimitOffset"]
            if lo.get("limit_by"):
                raise Unsupported("LIMIT BY")
            limit = self.const_int(lo["limit"]) if lo.get("limit") is not None else None
            if limit is not None and limit < 0:
                if self.dialect != "sqlite":
                    raise Unsupported("negative LIMIT outside SQLite")
                limit = None          # SQLite: a negative LIMIT means no upper bound
            offset = self.const_int(lo["offset"]["value"]) if lo.get("offset") else None
        body = q["body"]
        return self.setexpr(body, env, order_by, limit, offset)

    def const_int(self, e):
        if "Value" in e:
            v = e["Value"]["value"]
            if isinstance(v, dict) and "Number" in v:
                s, long_ = v["Number"]
                if long_:
                    raise Unsupported("long-suffixed number literal")
                return int(s)
        if "UnaryOp" in e and e["UnaryOp"]["op"] == "Minus":
            return -self.const_int(e["UnaryOp"]["expr"])
        raise Unsupported(f"non-constant LIMIT/OFFSET {e}")

    @staticmethod
    def ordinal(e):
        """a bare integer literal as a GROUP BY / ORDER BY term is a 1-based reference to an output column
        (SQLite, PostgreSQL, MySQL, DuckDB, BigQuery, Snowflake; SQL-92 for ORDER BY)"""
        if isinstance(e, dict) and "Value" in e:
            v = e["Value"]["value"]
            if isinstance(v, dict) and "Number" in v and re.fullmatch(r"[0-9]+", v["Number"][0]):
                return int(v["Number"][0])
        return None

    def setexpr(self, body, env, order_by=None, limit=None, offset=None):
        if "Select" in body:
            return self.select(body["Select"], env, order_by, limit, offset)
        if "Query" in body:
            r = self.query(body["Query"], env)
            if order_by or limit is not None or offset is not None:
                return self.order_limit_output(r, order_by, limit, offset)
            return r
        if "SetOperation" in body:
            so = body["SetOperation"]
            l = self.setexpr(so["left"], env)
            r = self.setexpr(so["right"], env)
            if len(l.cols) != len(r.cols):
                raise BindError("set operation arity mismatch")
            op, quant = so["op"], so["set_quantifier"]
            cols = [SCol(c.name) for c in l.cols]
            if op == "Union":
                rows = list(l.rows) + list(r.rows)
                if quant == "All":
                    out = SRel(cols, rows)
                elif quant in ("Distinct", "None"):
                    out = SRel(cols, distinct_rows(rows))
                else:
                    raise Unsupported(f"UNION {quant}")
            elif op in ("Except", "Intersect"):
                if quant == "All":
                    raise Unsupported(f"{op} ALL")
                rows = []
                for i, a in enumerate(distinct_rows(l.rows)):
                    inr = bor(*[band(b.present, same_row(a.cells, b.cells)) for b in r.rows])
                    rows.append(Row(band(a.present, bnot(inr) if op == "Except" else inr), a.cells))
                out = SRel(cols, rows)
            else:
                raise Unsupported(f"set op {op}")
            if order_by or limit is not None or offset is not None:
                return self.order_limit_output(out, order_by, limit, offset)
            return out
        raise Unsupported(f"set expr {list(body)}")

    def order_limit_output(self, r, order_by, limit, offset):
        ctx = Ctx(r.cols, r.rows)
        return self.order_limit(r, ctx, order_by, limit, offset)

    def order_limit(self, r, ctx, order_by, limit, offset):
        rows = r.rows
        order = None
        if order_by:
            descs, keys = [], [[] for _ in rows]
            for ob in order_by:
                opt = ob.get("options", {})
                if opt.get("nulls_first") is not None or ob.get("with_fill"):
                    raise Unsupported("NULLS FIRST/LAST")
                descs.append(opt.get("asc") is False)
                k = self.ordinal(ob["expr"])
                if k is not None:
                    if not 1 <= k <= len(r.cols):
                        raise BindError(f"ORDER BY term out of range: {k}")
                    for i in range(len(rows)):
                        keys[i].append(r.rows[i].cells[k - 1])
                    continue
                for i in range(len(rows)):
                    keys[i].append(self.expr(ob["expr"], ctx, i))
            order = (descs, keys)
        if limit is not None or offset is not None:
            if order is None:
                raise Unsupported("LIMIT without ORDER BY (any rows are correct)")
            rk = ranks([x.present for x in rows], order[1], order[0])
            # rows that tie on every ORDER BY key: which of them LIMIT keeps is the engine's choice
            for i_ in range(len(rows)):
                for j_ in range(i_ + 1, len(rows)):
                    self.nondet.append(bnot(band(rows[i_].present, rows[j_].present, same_row(order[1][i_], order[1][j_]))))
            new = []
            off = offset or 0
            for i, x in enumerate(rows):
                c = [x.present, rk[i] >= off]
                if limit is not None:
                    c.append(rk[i] < off + limit)
                new.append(Row(band(*c), x.cells))
            rows = new
        return SRel(r.cols, rows, order)

    # ---------------------------------------------------------------- FROM
    def table_factor(self, tf, env):
        if "Table" in tf:
            t = tf["Table"]
            name = objname(t["name"])
            if len(name) == 2 and self.db.has(".".join(name)) and name[0] not in env:
                qualified = ".".join(name)       # schema.table: columns are reachable through the table's own name
            elif len(name) != 1:
                raise Unsupported("qualified table name")
            else:
                qualified = None
            name = name[-1]
            if t.get("args") or t.get("with_hints") or t.get("sample"):
                raise Unsupported("table args")
            alias = t["alias"]["name"]["value"] if t.get("alias") else None
            if t.get("alias") and t["alias"].get("columns"):
                raise Unsupported("alias column list")
            if qualified is not None:
                cols, rows = self.db.table(qualified)
            elif name in env:
                src = env[name]
                cols, rows = [c.name for c in src.cols], src.rows
            elif self.db.has(name):
                cols, rows = self.db.table(name)
            else:
                raise BindError(f"no such table: {name}")
            q = alias or name
            return SRel([SCol(c, q) for c in cols], [Row(r.present, list(r.cells)) for r in rows])
        if "Derived" in tf:
            d = tf["Derived"]
            if d.get("lateral"):
                raise Unsupported("lateral")
            sub = self.query(d["subquery"], env)
            alias = d["alias"]["name"]["value"] if d.get("alias") else None
            return SRel([SCol(c.name, alias) for c in sub.cols], sub.rows)
        if "NestedJoin" in tf:
            nj = tf["NestedJoin"]
            r = self.table_with_joins(nj["table_with_joins"], env)
            if nj.get("alias"):
                raise Unsupported("nested join alias")
            return r
        raise Unsupported(f"table factor {list(tf)}")

    def table_with_joins(self, twj, env):
        cur = self.table_factor(twj["relation"], env)
        for j in twj["joins"]:
            right = self.table_factor(j["relation"], env)
            jo = j["join_operator"]
            if isinstance(jo, str):
                if jo == "CrossJoin":
                    kind, on = "inner", None
                else:
                    raise Unsupported(f"join {jo}")
            else:
                (kname, cons), = jo.items()
                kind = {"Inner": "inner", "Join": "inner", "LeftOuter": "left", "Left": "left", "RightOuter": "right", "Right": "right",
                        "FullOuter": "full", "CrossJoin": "inner"}.get(kname)
                if kind is None:
                    raise Unsupported(f"join {kname}")
                if cons == "None" or cons is None or kname == "CrossJoin":
                    on = None
                elif isinstance(cons, dict) and "On" in cons:
                    on = cons["On"]
                else:
                    raise Unsupported(f"join constraint {cons}")
            cur = self.join(cur, right, kind, on)
        return cur

    def join(self, left, right, kind, on):
        cols = left.cols + right.cols
        # duplicate qualifier check (two relations with the same exposed name)
        nl, nr = len(left.rows), len(right.rows)
        rows = []
        match = [[None] * nr for _ in range(nl)]
        for i, a in enumerate(left.rows):
            for j, b in enumerate(right.rows):
                cells = a.cells + b.cells
                if on is None:
                    c = T
                else:
                    ctx = Ctx(cols, [Row(T, cells)])
                    c = is_true(self.expr(on, ctx, 0))
                m = band(a.present, b.present, c)
                match[i][j] = m
                rows.append(Row(m, cells))
        if kind in ("left", "full"):
            for i, a in enumerate(left.rows):
                rows.append(Row(band(a.present, bnot(bor(*[match[i][j] for j in range(nr)]))),
                                a.cells + [vnull("int")] * len(right.cols)))
        if kind in ("right", "full"):
            for j, b in enumerate(right.rows):
                rows.append(Row(band(b.present, bnot(bor(*[match[i][j] for i in range(nl)]))),
                                [vnull("int")] * len(left.cols) + b.cells))
        return SRel(cols, rows)

    # ---------------------------------------------------------------- SELECT
    def select(self, s, env, order_by, limit, offset):
        for k in ("top", "into", "qualify", "prewhere", "connect_by", "exclude"):
            if s.get(k):
                raise Unsupported(f"select.{k}")
        for k in ("lateral_views", "cluster_by", "distribute_by", "sort_by", "named_window"):
            if s.get(k):
                raise Unsupported(f"select.{k}")
        frm = s.get("from") or []
        if len(frm) == 0:
            src = SRel([], [Row(T, [])])
        else:
            src = self.table_with_joins(frm[0], env)
            for extra in frm[1:]:
                src = self.join(src, self.table_with_joins(extra, env), "inner", None)
        # exposed-name uniqueness (SQLite tolerates duplicates until referenced; references are checked in lookup)
        ctx = Ctx(src.cols, src.rows)
        if s.get("selection"):
            conds = [is_true(self.expr(s["selection"], ctx, i)) for i in range(len(src.rows))]
            rows = [Row(band(r.present, conds[i]), r.cells) for i, r in enumerate(src.rows)]
            ctx = Ctx(src.cols, rows)
        gb = s.get("group_by") or {}
        if "Expressions" in gb:
            gexprs = gb["Expressions"][0]
            if gb["Expressions"][1]:
                raise Unsupported("group by modifiers")
        elif gb == "All" or "All" in gb:
            raise Unsupported("GROUP BY ALL")
        else:
            gexprs = []
        proj = s["projection"]
        if any(self.ordinal(g) is not None for g in gexprs):
            resolved = []
            for g in gexprs:
                k = self.ordinal(g)
                if k is None:
                    resolved.append(g)
                    continue
                if any(it == "Wildcard" or (isinstance(it, dict) and ("Wildcard" in it or "QualifiedWildcard" in it)) for it in proj):
                    raise Unsupported("GROUP BY ordinal with a wildcard in the projection")
                if not 1 <= k <= len(proj):
                    raise BindError(f"GROUP BY term out of range: {k}")
                it = proj[k - 1]
                e = it["UnnamedExpr"] if "UnnamedExpr" in it else it["ExprWithAlias"]["expr"]
                if has_agg(e):
                    raise BindError("aggregate functions are not allowed in the GROUP BY clause")
                resolved.append(e)
            gexprs = resolved
        grouped = bool(gexprs) or has_agg(proj) or has_agg(s.get("having")) or (order_by and has_agg(order_by))
        n = len(ctx.rows)
        if grouped:
            if gexprs:
                keys = [[self.expr(g, ctx, i) for g in gexprs] for i in range(n)]
                pres = [r.present for r in ctx.rows]
                leaders = [band(pres[i], *[bnot(band(pres[m], same_row(keys[m], keys[i]))) for m in range(i)]) for i in range(n)]
                members = {i: [(band(pres[j], same_row(keys[j], keys[i])), j) for j in range(n)] for i in range(n)}
                gctx = Ctx(ctx.cols, [Row(leaders[i], ctx.rows[i].cells) for i in range(n)])
                gctx.members = members
            else:
                # one group containing every row; exactly one output row even on empty input
                allm = [(r.present, j) for j, r in enumerate(ctx.rows)]
                gctx = Ctx(ctx.cols, [Row(T, [vnull("int")] * len(ctx.cols))])
                gctx.members = {0: allm}
                gctx.member_ctx = ctx
            gctx.member_ctx = ctx
            gctx.gkeys = list(gexprs)
            gctx.plain = Ctx(gctx.cols, gctx.rows)
            gctx.group_cols = set()
            for g in gexprs:
                if isinstance(g, dict) and ("Identifier" in g or "CompoundIdentifier" in g):
                    parts = [g["Identifier"]["value"]] if "Identifier" in g else [p["value"] for p in g["CompoundIdentifier"]]
                    gctx.group_cols |= set(ctx.lookup(parts)[:1])
            if s.get("having"):
                hv = [is_true(self.expr(s["having"], gctx, i)) for i in range(len(gctx.rows))]
                gctx.rows = [Row(band(r.present, hv[i]), r.cells) for i, r in enumerate(gctx.rows)]
            ectx = gctx
        else:
            if s.get("having"):
                raise Unsupported("HAVING without grouping")
            ectx = ctx
        # projection
        out_cols, out_cells = [], [[] for _ in ectx.rows]
        for item in proj:
            if item == "Wildcard" or (isinstance(item, dict) and "Wildcard" in item):
                opts = item["Wildcard"] if isinstance(item, dict) else {}
                self._no_wild_opts(opts)
                if grouped:
                    raise Unsupported("* in grouped select")
                if not ectx.cols:
                    raise BindError("SELECT * with no FROM")
                excl = self._excluded(opts)
                for nm in excl:
                    if not any(c.name == nm for c in ectx.cols):
                        raise BindError(f"EXCLUDE of a column that does not exist: {nm}")
                for k, c in enumerate(ectx.cols):
                    if c.name in excl:
                        continue
                    out_cols.append(SCol(c.name))
                    for i, r in enumerate(ectx.rows):
                        out_cells[i].append(r.cells[k])
            elif isinstance(item, dict) and "QualifiedWildcard" in item:
                kind, opts = item["QualifiedWildcard"]
                self._no_wild_opts(opts)
                if "ObjectName" not in kind:
                    raise Unsupported("qualified wildcard on expr")
                q = objname(kind["ObjectName"])
                if len(q) != 1:
                    raise Unsupported("qualified wildcard depth")
                idx = [k for k, c in enumerate(ectx.cols) if c.qual == q[0]]
                if not idx:
                    raise BindError(f"no such table: {q[0]}.*")
                if grouped:
                    raise Unsupported("t.* in grouped select")
                excl = self._excluded(opts)
                for nm in excl:
                    if not any(ectx.cols[k].name == nm for k in idx):
                        raise BindError(f"EXCLUDE of a column that does not exist: {q[0]}.{nm}")
                for k in idx:
                    if ectx.cols[k].name in excl:
                        continue
                    out_cols.append(SCol(ectx.cols[k].name))
                    for i, r in enumerate(ectx.rows):
                        out_cells[i].append(r.cells[k])
            else:
                if "UnnamedExpr" in item:
                    e, alias = item["UnnamedExpr"], None
                    if "Identifier" in e:
                        alias = e["Identifier"]["value"]
                    elif "CompoundIdentifier" in e:
                        alias = e["CompoundIdentifier"][-1]["value"]
                elif "ExprWithAlias" in item:
                    e, alias = item["ExprWithAlias"]["expr"], item["ExprWithAlias"]["alias"]["value"]
                else:
                    raise Unsupported(f"select item {list(item)}")
                out_cols.append(SCol(alias))
                for i in range(len(ectx.rows)):
                    out_cells[i].append(self.expr(e, ectx, i))
        if not out_cols:
            raise BindError("empty projection")
        out_rows = [Row(r.present, out_cells[i]) for i, r in enumerate(ectx.rows)]
        # ORDER BY scope: output aliases first, then source columns
        octx = Ctx(ectx.cols, ectx.rows)
        octx.members = ectx.members
        for attr in ("gkeys", "plain", "group_cols"):
            if hasattr(ectx, attr):
                setattr(octx, attr, getattr(ectx, attr))
        if hasattr(ectx, "member_ctx"):
            octx.member_ctx = ectx.member_ctx
        octx.alias = {}
        for k, c in enumerate(out_cols):
            if c.name is not None:
                octx.alias.setdefault(c.name, []).append(k)
        octx.out_rows = out_rows
        distinct = s.get("distinct")
        if distinct:
            if distinct != "Distinct":
                raise Unsupported(f"distinct {distinct}")
            out_rows = distinct_rows(out_rows)
            octx.rows = [Row(out_rows[i].present, r.cells) for i, r in enumerate(octx.rows)]
            octx.out_rows = out_rows
            octx.only_alias = True
        res = SRel(out_cols, out_rows)
        return self.order_limit(res, octx, order_by, limit, offset)

    def _no_wild_opts(self, opts):
        for k, v in (opts or {}).items():
            if v and k not in ("opt_exclude", "opt_except"):
                raise Unsupported(f"wildcard option {k}")

    def _excluded(self, opts):
        """column names removed by `* EXCLUDE (..)` (DuckDB/Snowflake) or `* EXCEPT (..)` (BigQuery)"""
        out = []
        ex = (opts or {}).get("opt_exclude")
        if ex:
            if "Multiple" in ex:
                out += [i["value"] for i in ex["Multiple"]]
            elif "Single" in ex:
                out.append(ex["Single"]["value"])
            else:
                raise Unsupported(f"EXCLUDE form {list(ex)}")
        ec = (opts or {}).get("opt_except")
        if ec:
            out.append(ec["first_element"]["value"])
            out += [i["value"] for i in ec.get("additional_elements", [])]
        return out

    # ---------------------------------------------------------------- expressions
    def expr(self, e, ctx, i):
        if ctx.members is not None and any(g == e for g in getattr(ctx, "gkeys", ())):
            return self.expr(e, ctx.plain, i)         # the expression is a GROUP BY key: constant within the group
        (k, v), = e.items() if isinstance(e, dict) and len(e) == 1 else (("?", e),)
        if k == "Identifier" or k == "CompoundIdentifier":
            parts = [v["value"]] if k == "Identifier" else [p["value"] for p in v]
            if ctx.alias is not None and len(parts) == 1 and parts[0] in ctx.alias:
                ks = ctx.alias[parts[0]]
                if len(ks) > 1:
                    # duplicate output names: SQLite picks the first; other engines reject. Treat as ambiguous
                    # only when the candidates are different expressions.
                    pass
                return ctx.out_rows[i].cells[ks[0]]
            idx = ctx.lookup(parts)
            if ctx.alias is not None and ctx.only_alias:
                raise BindError(f"ORDER BY term {'.'.join(parts)} is not in the result of a DISTINCT select")
            if not idx:
                raise BindError(f"no such column: {'.'.join(parts)}")
            if len(idx) > 1:
                quals = {ctx.cols[k].qual for k in idx}
                if len(quals) > 1 or self.dialect != "sqlite":
                    raise BindError(f"ambiguous column name: {'.'.join(parts)}")
                self.notes.add("duplicate column name inside one sub-query resolved to the first (SQLite rule)")
            if ctx.members is not None and idx[0] not in getattr(ctx, "group_cols", ()):
                # standard SQL rejects this; SQLite takes the value from an arbitrary row of the group
                raise Unsupported(f"bare column {'.'.join(parts)} in an aggregate query (any row's value is correct for SQLite; other engines reject)")
            return ctx.rows[i].cells[idx[0]]
        if k == "Value":
            val = v["value"]
            if val == "Null":
                return vnull("int")
            if isinstance(val, dict):
                if "Number" in val:
                    s, long_ = val["Number"]
                    if long_:
                        raise BindError(f"number literal with suffix: {s}L")
                    if any(ch in s for ch in ".eE"):
                        from fractions import Fraction
                        return vreal(str(Fraction(s)))
                    return vint(int(s))
                if "Boolean" in val:
                    return vbool(val["Boolean"])
            raise Unsupported(f"value {val}")
        if k == "Nested":
            return self.expr(v, ctx, i)
        if k == "BinaryOp":
            op = v["op"]
            a, b = self.expr(v["left"], ctx, i), self.expr(v["right"], ctx, i)
            return self.binop(op, a, b)
        if k == "UnaryOp":
            x = self.expr(v["expr"], ctx, i)
            if v["op"] == "Minus":
                return v_neg(x)
            if v["op"] == "Plus":
                return x
            if v["op"] == "Not":
                return v_not(x)
            raise Unsupported(f"unary {v['op']}")
        if k == "IsNull":
            return v_isnull(self.expr(v, ctx, i))
        if k == "IsNotNull":
            return v_isnull(self.expr(v, ctx, i), negate=True)
        if k == "Between":
            x = self.expr(v["expr"], ctx, i)
            lo, hi = self.expr(v["low"], ctx, i), self.expr(v["high"], ctx, i)
            r = v_and(v_cmp(">=", x, lo), v_cmp("<=", x, hi))
            return v_not(r) if v["negated"] else r
        if k == "Case":
            if v.get("operand"):
                raise Unsupported("CASE operand")
            out = self.expr(v["else_result"], ctx, i) if v.get("else_result") else vnull("int")
            arms = [(self.expr(c["condition"], ctx, i), self.expr(c["result"], ctx, i)) for c in v["conditions"]]
            for c, r in reversed(arms):
                out = v_ite(is_true(c), r, out)
            return out
        if k == "Function":
            return self.func(v, ctx, i)
        if k == "Floor":
            fld = v.get("field")
            if isinstance(fld, dict) and fld.get("DateTimeField") == "NoDateTime":
                return v_floor(self.expr(v["expr"], ctx, i))
            raise Unsupported(f"FLOOR field {fld}")
        if k == "Cast":
            raise Unsupported("CAST")
        if k == "InList":
            x = self.expr(v["expr"], ctx, i)
            out = vbool(False)
            for it in v["list"]:
                out = v_or(out, v_cmp("=", x, self.expr(it, ctx, i)))
            return v_not(out) if v["negated"] else out
        raise Unsupported(f"expr {k}")

    def binop(self, op, a, b):
        if op in ("Plus", "Minus", "Multiply"):
            return v_arith({"Plus": "+", "Minus": "-", "Multiply": "*"}[op], a, b)
        if op == "Divide":
            if self.dialect == "generic":
                self.notes.add("generic '/' read as real division (std.sql.prql: 'simple float division')")
                return v_div_real(a, b)
            return v_div_sql(a, b)
        if op == "Modulo":
            return v_mod(a, b)
        if op in ("Eq", "NotEq", "Lt", "LtEq", "Gt", "GtEq"):
            return v_cmp({"Eq": "=", "NotEq": "<>", "Lt": "<", "LtEq": "<=", "Gt": ">", "GtEq": ">="}[op], a, b)
        if op == "And":
            return v_and(a, b)
        if op == "Or":
            return v_or(a, b)
        raise Unsupported(f"binary op {op}")

    def func(self, f, ctx, i):
        name = fname(f)
        if f.get("filter") or f.get("within_group") or (f.get("null_treatment") not in (None, "None")):
            raise Unsupported("function modifiers")
        args = _fargs(f)
        dup = None
        if f.get("args") not in (None, "None") and "List" in f["args"]:
            dup = f["args"]["List"].get("duplicate_treatment")
            if f["args"]["List"].get("clauses"):
                raise Unsupported("function arg clauses")
        over = f.get("over")
        if over is not None:
            return self.window(name, args, over, ctx, i, dup)
        if name in AGGS:
            if ctx.members is None:
                raise BindError(f"misuse of aggregate {name}()")
            mctx = ctx.member_ctx
            mem_rows = ctx.members[i]
            if dup == "Distinct":
                raise Unsupported("DISTINCT aggregate")
            return self.aggregate(name, args, [(c, j) for c, j in mem_rows], mctx)
        if name in WINONLY:
            raise BindError(f"misuse of window function {name}()")
        vals = [self.expr(a, ctx, i) for a in args]
        if name == "COALESCE":
            return v_coalesce(*vals)
        if name == "ROUND" and len(vals) == 1:
            return v_round_half_away(vals[0])
        if name == "ABS" and len(vals) == 1:
            return v_abs(vals[0])
        if name == "SIGN" and len(vals) == 1:
            return v_sign(vals[0])
        if name == "FLOOR" and len(vals) == 1:
            return v_floor(vals[0])
        if name in ("POW", "POWER") and len(vals) == 2:
            return v_pow(vals[0], vals[1])
        raise Unsupported(f"function {name}/{len(vals)}")

    def aggregate(self, name, args, members, mctx):
        """members: list of (cond, j) over mctx rows"""
        if name == "COUNT":
            if args == ["*"] or not args:
                return V(F, count_if([c for c, _ in members]), "int")
            vs = [(c, self.expr(args[0], mctx, j)) for c, j in members]
            return agg_count_nonnull(vs)
        if len(args) != 1 or args[0] == "*":
            raise Unsupported(f"{name} args")
        vs = [(c, self.expr(args[0], mctx, j)) for c, j in members]
        if name == "SUM":
            return agg_sum(vs)
        if name == "MIN":
            return agg_minmax(vs, False)
        if name == "MAX":
            return agg_minmax(vs, True)
        if name == "AVG":
            return agg_avg(vs)
        raise Unsupported(name)

    def window(self, name, args, over, ctx, i, dup):
        if "WindowSpec" not in over:
            raise Unsupported("named window")
        if ctx.members is not None:
            raise Unsupported("window function over grouped rows")
        ws = over["WindowSpec"]
        if ws.get("window_name"):
            raise Unsupported("window name")
        cache = getattr(ctx, "_wcache", None)
        if cache is None:
            cache = ctx._wcache = {}
        key = repr((ws.get("partition_by"), ws.get("order_by")))
        n = len(ctx.rows)
        pres = [r.present for r in ctx.rows]
        if key not in cache:
            pk = [[self.expr(p, ctx, j) for p in ws.get("partition_by") or []] for j in range(n)]
            descs, ok = [], [[] for _ in range(n)]
            for ob in ws.get("order_by") or []:
                opt = ob.get("options", {})
                if opt.get("nulls_first") is not None:
                    raise Unsupported("NULLS FIRST/LAST")
                descs.append(opt.get("asc") is False)
                for j in range(n):
                    ok[j].append(self.expr(ob["expr"], ctx, j))
            cache[key] = (pk, descs, ok)
        pk, descs, ok = cache[key]
        same_part = (lambda a, b: same_row(pk[a], pk[b])) if pk and pk[0] else (lambda a, b: T)
        base = [band(pres[j], same_part(i, j)) for j in range(n)]
        has_order = bool(descs)
        before = lambda a, b: lex_before(ok[a], ok[b], descs) if has_order else F    # a strictly before b

        def rank_of(a):
            return count_if([band(base[j], before(j, a)) for j in range(n) if j != a])

        def pos_of(a):
            """row position: peers ordered by row index (SQL leaves it open; SQLite keeps scan order)"""
            cs = []
            for j in range(n):
                if j == a:
                    continue
                c = before(j, a)
                if j < a:
                    c = bor(c, bnot(before(a, j)))
                cs.append(band(base[j], c))
            return count_if(cs)

        if name == "RANK":
            return V(F, rank_of(i) + 1, "int")
        if name == "ROW_NUMBER":
            return V(F, pos_of(i) + 1, "int")
        if name == "DENSE_RANK":
            cs = []
            for j in range(n):
                if j == i:
                    continue
                leader = band(*[bnot(band(base[m], same_row(ok[m], ok[j]))) for m in range(j)])
                cs.append(band(base[j], before(j, i), leader))
            return V(F, count_if(cs) + 1, "int")
        if name in ("LAG", "LEAD"):
            if not has_order:
                raise Unsupported("LAG/LEAD without ORDER BY")
            off = self.const_int(args[1]) if len(args) > 1 else 1
            if len(args) > 2:
                raise Unsupported("LAG default")
            d = off if name == "LEAD" else -off
            ri = pos_of(i)
            vals = [self.expr(args[0], ctx, j) for j in range(n)]
            out = vnull(vals[0].ty)
            for j in range(n):
                out = v_ite(band(base[j], pos_of(j) == ri + d), vals[j], out)
            return out
        # frame membership
        fr = ws.get("window_frame")
        mem = self.frame(fr, base, before, pos_of, ok, descs, i, n, has_order)
        if name in ("FIRST_VALUE", "LAST_VALUE"):
            vals = [self.expr(args[0], ctx, j) for j in range(n)]
            out = vnull(vals[0].ty)
            for j in range(n):
                if name == "FIRST_VALUE":
                    others = [band(mem[m], before(m, j)) for m in range(n) if m != j]
                else:
                    others = [band(mem[m], before(j, m)) for m in range(n) if m != j]
                out = v_ite(band(mem[j], bnot(bor(*others))), vals[j], out)
            return out
        if name in AGGS:
            if dup == "Distinct":
                raise Unsupported("DISTINCT aggregate window")
            return self.aggregate(name, args, [(mem[j], j) for j in range(n)], ctx)
        raise Unsupported(f"window function {name}")

    def frame(self, fr, base, before, rank_of, ok, descs, i, n, has_order):
        if fr is None:
            if not has_order:
                return base
            # SQL default with ORDER BY: RANGE BETWEEN UNBOUNDED PRECEDING AND CURRENT ROW (peers included)
            return [band(base[j], bnot(before(i, j))) for j in range(n)]
        units = fr["units"]
        start, end = fr["start_bound"], fr.get("end_bound") or "CurrentRow"

        def bound(b):
            if b == "CurrentRow":
                return ("cur", 0)
            (k, v), = b.items()
            if v is None:
                return ("unb", k)
            return ("off", -self.const_int(v) if k == "Preceding" else self.const_int(v))
        sb, eb = bound(start), bound(end)
        if units == "Rows":
            ri = rank_of(i)
            out = []
            for j in range(n):
                d = rank_of(j) - ri
                c = [base[j]]
                if sb[0] != "unb":
                    c.append(d >= sb[1])
                if eb[0] != "unb":
                    c.append(d <= eb[1])
                out.append(band(*c))
            return out
        if units == "Range":
            out = []
            for j in range(n):
                c = [base[j]]
                for which, bb in (("s", sb), ("e", eb)):
                    if bb[0] == "unb":
                        continue
                    if bb[0] == "cur":
                        c.append(bnot(before(j, i)) if which == "s" else bnot(before(i, j)))
                        continue
                    if len(descs) != 1:
                        raise Unsupported("RANGE offset with several keys")
                    d = num(ok[j][0]) - num(ok[i][0])
                    if descs[0]:
                        d = -d
                    nn = bor(ok[j][0].null, ok[i][0].null)
                    c.append(band(bnot(nn), (d >= bb[1]) if which == "s" else (d <= bb[1])))
                out.append(band(*c))
            return out
        raise Unsupported(f"frame units {units}")


CMP_HI = {"Lt", "LtEq", "Gt", "GtEq"}
CMP_LO = {"Eq", "NotEq"}


def fix_sqlite_precedence(node):
    """sqlparser gives = <> < <= > >= one precedence level (left-assoc); SQLite gives < <= > >= a higher level
    than = <>.  Re-associate every unparenthesised chain of comparison operators the way SQLite reads the
    same token sequence.  (`Nested` nodes, i.e. explicit parentheses, delimit chains.)"""
    if isinstance(node, list):
        return [fix_sqlite_precedence(x) for x in node]
    if not isinstance(node, dict):
        return node
    if "BinaryOp" in node and len(node) == 1 and node["BinaryOp"]["op"] in CMP_HI | CMP_LO:
        # flatten the left-nested chain
        ops, operands = [], []
        cur = node
        while isinstance(cur, dict) and "BinaryOp" in cur and len(cur) == 1 and cur["BinaryOp"]["op"] in CMP_HI | CMP_LO:
            ops.append(cur["BinaryOp"]["op"])
            operands.append(fix_sqlite_precedence(cur["BinaryOp"]["right"]))
            cur = cur["BinaryOp"]["left"]
        operands.append(fix_sqlite_precedence(cur))
        ops.reverse()
        operands.reverse()
        if len(ops) == 1:
            return {"BinaryOp": {"left": operands[0], "op": ops[0], "right": operands[1]}}
        # first the high level, left to right
        vals, lows = [operands[0]], []
        for op, x in zip(ops, operands[1:]):
            if op in CMP_HI:
                vals[-1] = {"BinaryOp": {"left": vals[-1], "op": op, "right": x}}
            else:
                lows.append(op)
                vals.append(x)
        out = vals[0]
        for op, x in zip(lows, vals[1:]):
            out = {"BinaryOp": {"left": out, "op": op, "right": x}}
        return out
    return {k: fix_sqlite_precedence(v) for k, v in node.items()}


def mixed_cmp_chain(node):
    """does the tree contain an unparenthesised chain mixing {=,<>} with {<,<=,>,>=} (engine-defined reading)"""
    if isinstance(node, list):
        return any(mixed_cmp_chain(x) for x in node)
    if not isinstance(node, dict):
        return False
    if "BinaryOp" in node and len(node) == 1 and node["BinaryOp"]["op"] in CMP_HI | CMP_LO:
        l = node["BinaryOp"]["left"]
        if isinstance(l, dict) and "BinaryOp" in l and len(l) == 1 and l["BinaryOp"]["op"] in CMP_HI | CMP_LO:
            both = {node["BinaryOp"]["op"] in CMP_HI, l["BinaryOp"]["op"] in CMP_HI}
            if len(both) == 2:
                return True
    return any(mixed_cmp_chain(v) for v in node.values())


def distinct_rows(rows):
    out = []
    for i, r in enumerate(rows):
        first = band(*[bnot(band(rows[m].present, same_row(rows[m].cells, r.cells))) for m in range(i)])
        out.append(Row(band(r.present, first), r.cells))
    return out
