"""Abstract PRQL programs: a small DSL that is (a) printed to PRQL text and (b) given the documented
meaning by a reference evaluator over bounded symbolic relations (rel.py).
PRQL text is never parsed here; the DSL value is the single source for both.

Reference sources: web/book/src/reference/stdlib/transforms/*.md, reference/syntax/operators.md,
reference/spec/null.md, the statements of properties C01-C06.
"""
import z3
from rel import *  # noqa

# ---------------------------------------------------------------- expressions

class E:
    """expression node"""
    def __init__(self, k, *a):
        self.k, self.a = k, a

    def _b(self, op, o, rev=False):
        o = lift(o)
        return E("bin", op, o, self) if rev else E("bin", op, self, o)

    def __add__(s, o): return s._b("+", o)
    def __radd__(s, o): return s._b("+", o, True)
    def __sub__(s, o): return s._b("-", o)
    def __rsub__(s, o): return s._b("-", o, True)
    def __mul__(s, o): return s._b("*", o)
    def __rmul__(s, o): return s._b("*", o, True)
    def __truediv__(s, o): return s._b("/", o)
    def __floordiv__(s, o): return s._b("//", o)
    def __mod__(s, o): return s._b("%", o)
    def __pow__(s, o): return s._b("**", o)
    def __eq__(s, o): return s._b("==", o)
    def __ne__(s, o): return s._b("!=", o)
    def __lt__(s, o): return s._b("<", o)
    def __le__(s, o): return s._b("<=", o)
    def __gt__(s, o): return s._b(">", o)
    def __ge__(s, o): return s._b(">=", o)
    def __and__(s, o): return s._b("&&", o)
    def __or__(s, o): return s._b("||", o)
    def __neg__(s): return E("un", "-", s)
    def __pos__(s): return E("un", "+", s)
    def __invert__(s): return E("un", "!", s)
    def coalesce(s, o): return s._b("??", o)
    __hash__ = object.__hash__

    def __repr__(self):
        return pp(self)


def lift(x):
    if isinstance(x, E):
        return x
    if x is None:
        return E("null")
    if isinstance(x, bool):
        return E("bool", x)
    if isinstance(x, int):
        return E("lit", x)
    raise TypeError(x)


def C(name): return E("col", name)
def L(n): return E("lit", n)
NULL = E("null")
def Case(*arms): return E("case", [(lift(c), lift(v)) for c, v in arms])
def In(e, lo, hi): return E("in", lift(e), lo, hi)
def Fn(name, *args): return E("fn", name, [lift(a) for a in args])       # std aggregate/window function
def Call(name, *args, **named): return E("call", name, [lift(a) for a in args], {k: lift(v) for k, v in named.items()})


# documented precedence (reference/syntax/operators.md): higher binds tighter
PREC = {"**": 6, "*": 5, "/": 5, "//": 5, "%": 5, "+": 4, "-": 4,
        "==": 3, "!=": 3, "<": 3, "<=": 3, ">": 3, ">=": 3, "~=": 3, "??": 2, "&&": 1, "||": 0}
RIGHT_ASSOC = {"**"}
UNARY_PREC = 8   # unary binds tighter than any binary operator (and than range)


def pp(e, mode="full", ctx=None):
    """print an expression. mode 'full': every compound operand parenthesised.
    mode 'min': only the parentheses the documented precedence/associativity table requires."""
    k = e.k
    if k == "col":
        return e.a[0]
    if k == "star":
        return f"{e.a[0]}.*"
    if k == "lit":
        n = e.a[0]
        return str(n)
    if k == "null":
        return "null"
    if k == "bool":
        return "true" if e.a[0] else "false"
    if k == "bin":
        op, l, r = e.a
        if mode == "full":
            return f"{_atom(l, mode)} {op} {_atom(r, mode)}"
        p = PREC[op]
        ls, rs = pp(l, mode), pp(r, mode)
        if _needs(l, p, left=True, op=op):
            ls = f"({ls})"
        if _needs(r, p, left=False, op=op):
            rs = f"({rs})"
        return f"{ls} {op} {rs}"
    if k == "un":
        op, x = e.a
        if mode == "full" or x.k in ("bin", "case", "in", "fn", "call") or (x.k == "un") or (x.k == "lit" and x.a[0] < 0):
            return f"{op}({pp(x, mode)})" if x.k not in ("col", "lit", "null", "bool") or (x.k == "lit" and x.a[0] < 0) else f"{op}{pp(x, mode)}"
        return f"{op}{pp(x, mode)}"
    if k == "case":
        return "case [" + ", ".join(f"{pp(c, mode)} => {pp(v, mode)}" for c, v in e.a[0]) + "]"
    if k == "in":
        x, lo, hi = e.a
        return f"({_atom(x, mode)} | in {_rng(lo, hi)})"
    if k == "fn":
        name, args = e.a
        return "(" + " ".join([name] + [_atom(a, mode) for a in args]) + ")" if args else name
    if k == "call":
        name, args, named = e.a
        parts = [name] + [f"{n}:{_atom(v, mode)}" for n, v in named.items()] + [_atom(a, mode) for a in args]
        return "(" + " ".join(parts) + ")"
    if k == "pipecall":
        name, args = e.a
        return "(" + _atom(args[-1], mode) + " | " + " ".join([name] + [_atom(a, mode) for a in args[:-1]]) + ")"
    raise ValueError(k)


def _atom(e, mode):
    s = pp(e, mode)
    if e.k in ("col", "null", "bool") or (e.k == "lit" and e.a[0] >= 0):
        return s
    if e.k in ("fn", "call", "in", "pipecall") and s.startswith("("):
        return s
    return f"({s})"


def _needs(child, parent_prec, left, op):
    if child.k == "lit" and child.a[0] < 0:
        return False  # '-1' lexes as unary minus on a literal: binds tighter than any binary op
    if child.k in ("case",):
        return False
    if child.k != "bin":
        return False
    cp = PREC[child.a[0]]
    if cp > parent_prec:
        return False
    if cp < parent_prec:
        return True
    # equal precedence: associativity decides
    right = op in RIGHT_ASSOC
    return left if right else (not left)


# ---------------------------------------------------------------- transforms

class Tr:
    def __init__(self, k, **kw):
        self.k = k
        self.__dict__.update(kw)


def From(table, alias=None): return Tr("from", table=table, alias=alias)
def FromLit(rows): return Tr("fromlit", rows=rows)          # rows: list of dict name->int|None
def Select(*cols, **named): return Tr("select", items=_items(cols, named))
def SelectNot(*names): return Tr("selectnot", names=list(names))
def Derive(**named): return Tr("derive", items=_items((), named))
def Filter(e): return Tr("filter", e=lift(e))
def Sort(*keys): return Tr("sort", keys=[(k[0] == "-", C(k.lstrip("+-"))) if isinstance(k, str) else k for k in keys])
def Take(lo, hi="same"): return Tr("take", lo=(1 if hi == "same" else lo), hi=(lo if hi == "same" else hi), n_form=(hi == "same"))
def Join(right, cond, side="inner", alias=None): return Tr("join", right=right, cond=cond, side=side, alias=alias)
def Aggregate(**named): return Tr("aggregate", items=_items((), named))
def Group(keys, *inner): return Tr("group", keys=[C(k) if isinstance(k, str) else k for k in keys], inner=list(inner))
def Window(*inner, rows=None, range=None, rolling=None, expanding=False):
    return Tr("window", inner=list(inner), rows=rows, range=range, rolling=rolling, expanding=expanding)
def Append(right): return Tr("append", right=right)


def Star(rel):
    """`rel.*` inside a select tuple"""
    return E("star", rel)


def _items(cols, named):
    out = []
    for c in cols:
        out.append((None, C(c) if isinstance(c, str) else lift(c)))
    for n, e in named.items():
        out.append((n, C(e) if isinstance(e, str) else lift(e)))
    return out


class Prog:
    """lets: list of (name, pipeline) table declarations; funcs: list of PRQL source lines (user functions
    with their Python meaning registered in `fdefs`); main: pipeline (list of Tr)."""

    def __init__(self, main, lets=(), funcs=(), fdefs=None, mode="full", header=None, into=()):
        self.main, self.lets, self.funcs = list(main), list(lets), list(funcs)
        self.fdefs = fdefs or {}
        self.mode = mode
        self.header = header
        self.into = list(into)  # pipelines ending in `into name`

    def text(self):
        out = []
        if self.header:
            out.append(self.header)
        out += self.funcs
        for n, p in self.lets:
            out.append(f"let {n} = (\n" + pipe_text(p, self.mode, "  ") + "\n)")
        for n, p in self.into:
            out.append(pipe_text(p, self.mode, "") + f"\ninto {n}")
        out.append(pipe_text(self.main, self.mode, ""))
        return "\n".join(out) + "\n"


def _rng(lo, hi):
    b = lambda n: "" if n is None else (f"({n})" if n < 0 else str(n))
    return b(lo) + ".." + b(hi)


def tr_text(t, mode, ind=""):
    k = t.k
    if k == "from":
        return f"from {t.alias}={t.table}" if t.alias else f"from {t.table}"
    if k == "fromlit":
        rows = ", ".join("{" + ", ".join(f"{n}={'null' if v is None else v}" for n, v in r.items()) + "}" for r in t.rows)
        return f"from [{rows}]"
    if k in ("select", "derive", "aggregate"):
        its = ", ".join((f"{n} = " if n else "") + pp(e, mode) for n, e in t.items)
        return f"{k} {{{its}}}"
    if k == "selectnot":
        return "select !{" + ", ".join(t.names) + "}"
    if k == "filter":
        return f"filter {pp(t.e, mode)}"
    if k == "sort":
        ks = ", ".join(("-" if d else "") + _atom(e, mode) for d, e in t.keys)
        return f"sort {{{ks}}}"
    if k == "take":
        if t.n_form:
            return f"take {t.hi}"
        return f"take {_rng(t.lo, t.hi)}"
    if k == "join":
        r = t.right
        if isinstance(r, str):
            rt = (f"{t.alias}={r}" if t.alias else r)
        else:
            rt = (f"{t.alias}=" if t.alias else "") + "(\n" + pipe_text(r, mode, ind + "  ") + "\n" + ind + ")"
        c = t.cond
        ct = ("==" + c[2:]) if isinstance(c, str) and c.startswith("==") else pp(c, mode)
        side = "" if t.side == "inner" else f"side:{t.side} "
        return f"join {side}{rt} ({ct})"
    if k == "group":
        ks = ", ".join(pp(e, mode) for e in t.keys)
        return f"group {{{ks}}} (\n" + pipe_text(t.inner, mode, ind + "  ") + "\n" + ind + ")"
    if k == "window":
        if t.expanding:
            a = "expanding:true"
        elif t.rolling is not None:
            a = f"rolling:{t.rolling}"
        elif t.rows is not None:
            a = "rows:" + _rng(*t.rows)
        elif t.range is not None:
            a = "range:" + _rng(*t.range)
        else:
            a = ""
        return f"window {a} (\n" + pipe_text(t.inner, mode, ind + "  ") + "\n" + ind + ")"
    if k == "append":
        r = t.right
        return f"append {r}" if isinstance(r, str) else "append (\n" + pipe_text(r, mode, ind + "  ") + "\n" + ind + ")"
    raise ValueError(k)


def pipe_text(p, mode="full", ind=""):
    return "\n".join(ind + tr_text(t, mode, ind) for t in p)


# ---------------------------------------------------------------- reference semantics

class Col:
    __slots__ = ("name", "rel")

    def __init__(self, name, rel=None):
        self.name, self.rel = name, rel

    def __repr__(self):
        return f"{self.rel}.{self.name}" if self.rel else str(self.name)


class RelVal:
    """cols: [Col]; rows: [Row]; order: None | (descs, [keys per row]) ; pre: list of z3 Bool preconditions"""

    def __init__(self, cols, rows, order=None):
        self.cols, self.rows, self.order = cols, rows, order


class Pre:
    """preconditions collected while evaluating the reference (ties, nulls in sort keys, zero divisors)"""

    def __init__(self):
        self.conds = []

    def add(self, c):
        if not z3.is_true(c):
            self.conds.append(c)


class WinCtx:
    """window context for evaluating window functions on row i"""

    def __init__(self, rows, part_keys=None, order=None, frame=None):
        self.rows, self.part_keys, self.order, self.frame = rows, part_keys, order, frame
        self._rank = None

    def same_part(self, i, j):
        if not self.part_keys:
            return T
        return same_row(self.part_keys[i], self.part_keys[j])

    def rank(self):
        if self._rank is None:
            descs, keys = self.order
            self._rank = ranks([r.present for r in self.rows], keys, descs,
                               (lambda i, j: self.same_part(i, j)) if self.part_keys else None)
        return self._rank


class Ref:
    def __init__(self, db, prog, pre):
        self.db, self.prog, self.pre = db, prog, pre
        self.lets = {}

    # -- entry
    def run(self):
        for n, p in list(self.prog.lets) + list(self.prog.into):
            self.lets[n] = p
        return self.pipeline(self.prog.main)

    def table(self, name, alias=None):
        if name in self.lets:
            rv = self.pipeline(self.lets[name])
            a = alias or name
            return RelVal([Col(c.name, a) for c in rv.cols], rv.rows, rv.order)
        cols, rows = self.db.table(name)
        a = alias or name
        return RelVal([Col(c, a) for c in cols], [Row(r.present, list(r.cells)) for r in rows], None)

    def pipeline(self, p, start=None, win=None):
        rv = start
        for t in p:
            rv = self.step(rv, t, win)
        return rv

    # -- name resolution (trivial by construction: generator emits unambiguous names)
    def resolve(self, rv, name):
        if "." in name:
            rel, nm = name.split(".", 1)
            split = getattr(rv, "split", None)
            if rel in ("this", "that") and split is not None:
                rng = range(0, split) if rel == "this" else range(split, len(rv.cols))
                idx = [i for i in rng if rv.cols[i].name == nm]
            else:
                idx = [i for i, c in enumerate(rv.cols) if c.name == nm and c.rel == rel]
        else:
            idx = [i for i, c in enumerate(rv.cols) if c.name == name]
            if len(idx) > 1:
                idx = idx[-1:] if all(rv.cols[i].rel is None for i in idx[-1:]) else idx
        if len(idx) != 1:
            raise Unsupported(f"generator bug: name {name} resolves to {idx} in {rv.cols}")
        return idx[0]

    # -- expressions
    def ev(self, e, rv, i, win=None, aggset=None):
        """value of e on row i of rv.  win: WinCtx for window functions; aggset: list of (cond,rowindex) members
        when evaluating inside aggregate"""
        k = e.k
        if k == "col":
            return rv.rows[i].cells[self.resolve(rv, e.a[0])]
        if k == "lit":
            return vint(e.a[0])
        if k == "null":
            return vnull("int")
        if k == "bool":
            return vbool(e.a[0])
        if k == "bin":
            op, l, r = e.a
            if op in ("==", "!=") and (l.k == "null" or r.k == "null"):
                x = self.ev(r if l.k == "null" else l, rv, i, win, aggset)
                return v_isnull(x, negate=(op == "!="))
            a, b = self.ev(l, rv, i, win, aggset), self.ev(r, rv, i, win, aggset)
            return self.binop(op, a, b)
        if k == "un":
            op, x = e.a
            v = self.ev(x, rv, i, win, aggset)
            return {"-": v_neg, "+": lambda z: z, "!": v_not}[op](v)
        if k == "case":
            out = vnull("int")
            arms = [(self.ev(c, rv, i, win, aggset), self.ev(v, rv, i, win, aggset)) for c, v in e.a[0]]
            for c, v in reversed(arms):
                out = v_ite(is_true(c), v, out)
            return out
        if k == "in":
            x, lo, hi = e.a
            v = self.ev(x, rv, i, win, aggset)
            conds = []
            if lo is not None:
                conds.append(v_cmp(">=", v, vint(lo)))
            if hi is not None:
                conds.append(v_cmp("<=", v, vint(hi)))
            out = conds[0] if conds else vbool(True)
            for c in conds[1:]:
                out = v_and(out, c)
            return out
        if k == "fn":
            return self.fn(e, rv, i, win, aggset)
        if k == "call":
            name, args, named = e.a
            return self.prog.fdefs[name](self, rv, i, win, aggset, args, named)
        raise ValueError(k)

    def binop(self, op, a, b):
        if op in ("+", "-", "*"):
            return v_arith(op, a, b)
        if op == "/":
            self.pre.add(bor(a.null, b.null, num(b) != 0))
            return v_div_real(a, b)
        if op == "//":
            self.pre.add(bor(a.null, b.null, num(b) != 0))
            return v_div_int(a, b)
        if op == "%":
            self.pre.add(bor(a.null, b.null, num(b) != 0))
            return v_mod(a, b)
        if op in ("==", "!=", "<", "<=", ">", ">="):
            return v_cmp({"==": "=", "!=": "<>"}.get(op, op), a, b)
        if op == "&&":
            return v_and(a, b)
        if op == "||":
            return v_or(a, b)
        if op == "??":
            return v_coalesce(a, b)
        if op == "**":
            return v_pow(a, b)
        raise Unsupported(op)

    # -- aggregate / window functions
    def fn(self, e, rv, i, win, aggset):
        name, args = e.a
        if aggset is not None:
            # inside `aggregate`: members are the rows of the group
            mem = lambda arg: [(c, self.ev(arg, rv, j)) for c, j in aggset]
            return self.aggval(name, args, mem, [c for c, _ in aggset])
        # window function on row i
        if win is None:
            win = WinCtx(rv.rows, None, rv.order, None)
        n = len(rv.rows)
        present = [r.present for r in rv.rows]
        if name in ("row_number", "rank", "rank_dense"):
            if win.order is None:
                if name == "row_number":
                    raise Unsupported("row_number without order is not deterministic")
                return vint(1)     # all rows are peers
            descs, keys = win.order
            for j, ks in enumerate(keys):
                for kv in ks:
                    self.pre.add(bor(bnot(present[j]), bnot(kv.null)))
            before = lambda j: band(present[j], win.same_part(i, j), lex_before(keys[j], keys[i], descs))
            if name == "row_number":
                self.no_ties(win)
            if name in ("row_number", "rank"):
                return V(F, count_if([before(j) for j in range(n) if j != i]) + 1, "int")
            # dense: number of distinct key tuples strictly before = number of 'leader' rows before
            cs = []
            for j in range(n):
                if j == i:
                    continue
                leader = band(*[bnot(band(present[m], win.same_part(j, m), same_row(keys[m], keys[j]))) for m in range(j)])
                cs.append(band(before(j), leader))
            return V(F, count_if(cs) + 1, "int")
        if name in ("lag", "lead", "first", "last"):
            if name in ("first", "last"):
                arg = args[0]
            else:
                off, arg = args
                if off.k != "lit":
                    raise Unsupported("lag/lead offset must be a literal")
            if win.order is None:
                raise Unsupported(f"{name} without order is not deterministic")
            self.no_ties(win)
            rk = win.rank()
            vals = [self.ev(arg, rv, j) for j in range(n)]
            if name in ("lag", "lead"):
                d = off.a[0] if name == "lead" else -off.a[0]
                out = vnull(vals[0].ty)
                for j in range(n):
                    c = band(present[j], win.same_part(i, j), rk[j] == rk[i] + d)
                    out = v_ite(c, vals[j], out)
                return out
            mem = self.frame_members(win, i)
            # first/last over the frame (no window => whole partition)
            out = vnull(vals[0].ty)
            for j in range(n):
                others = [band(mem[m], (rk[m] < rk[j]) if name == "first" else (rk[m] > rk[j])) for m in range(n) if m != j]
                c = band(mem[j], bnot(bor(*others)))
                out = v_ite(c, vals[j], out)
            return out
        mem_c = self.frame_members(win, i)
        mem = lambda arg: [(mem_c[j], self.ev(arg, rv, j)) for j in range(n)]
        r = self.aggval(name, args, mem, mem_c)
        if name == "sum":
            # the book gives `sum` of no values as 0 for aggregate; for a windowed sum over a segment
            # without non-null values it is silent (SQL yields NULL) -> left open, never an oracle
            s = agg_sum(mem(args[0]))
            r = V(r.null, r.val, r.ty, bor(r.unk, s.null))
        return r

    def aggval(self, name, args, mem, conds):
        if name == "count":
            return V(F, count_if(conds), "int")
        if name == "sum":
            return v_coalesce(agg_sum(mem(args[0])), vint(0))
        if name == "min":
            return agg_minmax(mem(args[0]), False)
        if name == "max":
            return agg_minmax(mem(args[0]), True)
        if name == "average":
            return agg_avg(mem(args[0]))
        raise Unsupported(f"function {name}")

    def no_ties(self, win):
        descs, keys = win.order
        rows = win.rows
        for i in range(len(rows)):
            for kv in keys[i]:
                self.pre.add(bor(bnot(rows[i].present), bnot(kv.null)))
            for j in range(i):
                self.pre.add(bor(bnot(rows[i].present), bnot(rows[j].present), bnot(win.same_part(i, j)),
                                 bnot(same_row(keys[i], keys[j]))))

    def frame_members(self, win, i):
        """membership conditions of every row j in the window segment of row i"""
        rows = win.rows
        n = len(rows)
        base = [band(rows[j].present, win.same_part(i, j)) for j in range(n)]
        fr = win.frame
        if fr is None:
            return base                       # no window: whole partition (documented)
        kind, lo, hi = fr
        if lo is None and hi is None:
            return base
        if win.order is None:
            raise Unsupported("bounded frame without order")
        descs, keys = win.order
        if kind == "rows":
            self.no_ties(win)
            rk = win.rank()
            out = []
            for j in range(n):
                d = rk[j] - rk[i]
                out.append(band(base[j], (d >= lo) if lo is not None else T, (d <= hi) if hi is not None else T))
            return out
        # range: distance of the (single) order key
        if len(descs) != 1:
            raise Unsupported("range frame needs exactly one sort key")
        for j in range(n):
            self.pre.add(bor(bnot(rows[j].present), bnot(keys[j][0].null)))
        out = []
        for j in range(n):
            d = num(keys[j][0]) - num(keys[i][0])
            if descs[0]:
                d = -d
            out.append(band(base[j], (d >= lo) if lo is not None else T, (d <= hi) if hi is not None else T))
        return out

    # -- transforms
    def step(self, rv, t, win=None):
        k = t.k
        if k == "from":
            return self.table(t.table, t.alias)
        if k == "fromlit":
            names = list(t.rows[0].keys())
            rows = [Row(T, [vnull("int") if r[n] is None else vint(r[n]) for n in names]) for r in t.rows]
            return RelVal([Col(n) for n in names], rows, None)
        n = len(rv.rows)
        if k in ("select", "derive"):
            newcols, newcells = [], [[] for _ in range(n)]
            # `rel.*` in a tuple together with columns of rel: the book does not say whether the star repeats them.
            # Two readings (Prog.star_mode): "all" - the star is every column of rel (what `*` gives on a relation
            # whose columns the compiler does not know); "dedup" - a tuple holds each column once, first occurrence
            # wins (what the compiler does on relations whose columns it knows). checks.c_prog accepts either.
            dedup = getattr(self.prog, "star_mode", "all") == "dedup"
            has_star = any(nm is None and e_.k == "star" for nm, e_ in t.items)
            taken = set()
            for name, e in t.items:
                if name is None and e.k == "star":
                    if k != "select":
                        raise Unsupported("star outside select")
                    idxs = [j for j, c in enumerate(rv.cols) if c.rel == e.a[0]]
                    if not idxs:
                        raise Unsupported(f"generator bug: {e.a[0]}.* matches nothing in {rv.cols}")
                    for j in idxs:
                        if dedup and j in taken:
                            continue
                        taken.add(j)
                        newcols.append(Col(rv.cols[j].name, rv.cols[j].rel))
                        for i in range(n):
                            newcells[i].append(rv.rows[i].cells[j])
                    continue
                if name is None and e.k != "col":
                    if k != "select":
                        raise Unsupported("unnamed computed column outside select")
                    newcols.append(Col(None, None))           # an expression without a name: an unnamed column of the frame
                    for i in range(n):
                        newcells[i].append(self.ev(e, rv, i, win))
                    continue
                if name is None:
                    j = self.resolve(rv, e.a[0])
                    if has_star and dedup and j in taken:
                        continue
                    taken.add(j)
                    src = rv.cols[j]
                    newcols.append(Col(src.name, src.rel))
                else:
                    newcols.append(Col(name, None))
                for i in range(n):
                    newcells[i].append(self.ev(e, rv, i, win))
            if k == "derive":
                # a derived column that re-uses the name of existing columns shadows them: they stay in the frame, without a name
                shadow = {c.name for c in newcols if c.name}
                old = [Col(None, c.rel) if c.name in shadow else c for c in rv.cols]
                return RelVal(old + newcols, [Row(r.present, r.cells + newcells[i]) for i, r in enumerate(rv.rows)], rv.order)
            return RelVal(newcols, [Row(r.present, newcells[i]) for i, r in enumerate(rv.rows)], rv.order)
        if k == "selectnot":
            drop = {self.resolve(rv, nm) for nm in t.names}
            keep = [i for i in range(len(rv.cols)) if i not in drop]
            return RelVal([rv.cols[i] for i in keep], [Row(r.present, [r.cells[i] for i in keep]) for r in rv.rows], rv.order)
        if k == "filter":
            vals = [self.ev(t.e, rv, i, win) for i in range(n)]
            for i, v in enumerate(vals):
                self.pre.add(bor(bnot(rv.rows[i].present), bnot(v.unk)))
            conds = [is_true(v) for v in vals]
            return RelVal(rv.cols, [Row(band(r.present, conds[i]), r.cells) for i, r in enumerate(rv.rows)], rv.order)
        if k == "sort":
            descs = [d for d, _ in t.keys]
            keys = [[self.ev(e, rv, i, win) for _, e in t.keys] for i in range(n)]
            for i, ks in enumerate(keys):
                for v in ks:
                    self.pre.add(bor(bnot(rv.rows[i].present), band(bnot(v.unk), bnot(v.null))))
            return RelVal(rv.cols, rv.rows, (descs, keys))
        if k == "take":
            if t.lo in (None, 1) and t.hi is None:
                return rv          # `take 1..`: every position qualifies, with or without an order
            w = win or WinCtx(rv.rows, None, rv.order, None)
            if w.order is None and not getattr(t, "any_ok", False):
                raise Unsupported("take without an order in effect: any rows are correct")
            ww = WinCtx(rv.rows, w.part_keys, rv.order if win is None else (rv.order or w.order), None)
            self.no_ties(ww)
            rk = ww.rank()
            rows = []
            for i, r in enumerate(rv.rows):
                c = [r.present]
                if t.lo is not None:
                    c.append(rk[i] + 1 >= t.lo)
                if t.hi is not None:
                    c.append(rk[i] + 1 <= t.hi)
                rows.append(Row(band(*c), r.cells))
            return RelVal(rv.cols, rows, rv.order)
        if k == "join":
            right = self.table(t.right, t.alias) if isinstance(t.right, str) else self._aliased(self.pipeline(t.right), t.alias)
            return self.join(rv, right, t)
        if k == "aggregate":
            if win is not None and win.part_keys is not None:
                raise Unsupported("aggregate inside group is handled by group")
            aggset = [(r.present, j) for j, r in enumerate(rv.rows)]
            cells = [self.ev(e, rv, 0 if n else None, None, aggset) for _, e in t.items]
            return RelVal([Col(nm) for nm, _ in t.items], [Row(T, cells)], None)
        if k == "group":
            return self.group(rv, t)
        if k == "window":
            fr = None
            if t.expanding:
                fr = ("rows", None, 0)
            elif t.rolling is not None:
                fr = ("rows", 1 - t.rolling, 0)
            elif t.rows is not None:
                fr = ("rows",) + tuple(t.rows)
            elif t.range is not None:
                fr = ("range",) + tuple(t.range)
            base = win or WinCtx(rv.rows, None, rv.order, None)
            cur = rv
            for tt in t.inner:
                if tt.k == "sort":
                    cur = self.step(cur, tt, None)
                    continue
                w = WinCtx(cur.rows, base.part_keys, cur.order or base.order, fr)
                cur = self.step(cur, tt, w)
            return RelVal(cur.cols, cur.rows, rv.order if win is None else cur.order)
        if k == "append":
            right = self.table(t.right) if isinstance(t.right, str) else self.pipeline(t.right)
            if len(right.cols) != len(rv.cols):
                raise Unsupported("append arity")
            # a column takes its name from the top relation; where the top column has none, from the bottom relation
            return RelVal([Col(c.name if c.name else rc.name, None) for c, rc in zip(rv.cols, right.cols)], rv.rows + right.rows, None)
        raise ValueError(k)

    def _aliased(self, rv, alias):
        if alias:
            return RelVal([Col(c.name, alias) for c in rv.cols], rv.rows, rv.order)
        return rv

    def join(self, left, right, t):
        cols = left.cols + right.cols
        nl, nr = len(left.rows), len(right.rows)
        rows, lidx = [], []
        combo = RelVal(cols, [], None)
        match = [[None] * nr for _ in range(nl)]
        for i, a in enumerate(left.rows):
            for j, b in enumerate(right.rows):
                tmp = RelVal(cols, [Row(T, a.cells + b.cells)], None)
                tmp.split = len(left.cols)
                c = self.join_cond(tmp, t.cond, left, right)
                m = band(a.present, b.present, c)
                match[i][j] = m
                rows.append(Row(m, a.cells + b.cells))
                lidx.append(i)
        if t.side in ("left", "full"):
            for i, a in enumerate(left.rows):
                rows.append(Row(band(a.present, bnot(bor(*[match[i][j] for j in range(nr)]))),
                                a.cells + [vnull(c.ty) for c in (right.rows[0].cells if nr else [])] if nr else a.cells + [vnull("int")] * len(right.cols)))
                lidx.append(i)
        if t.side in ("right", "full"):
            for j, b in enumerate(right.rows):
                lc = [vnull(c.ty) for c in left.rows[0].cells] if nl else [vnull("int")] * len(left.cols)
                rows.append(Row(band(b.present, bnot(bor(*[match[i][j] for i in range(nl)]))), lc + b.cells))
                lidx.append(None)
        order = None
        if left.order is not None:
            # "the left input of join retains its order" - for every side. Rows that exist only on the right have no
            # left sort key (NULL): their position is not documented, so instances with such rows are outside the precondition.
            descs, keys = left.order
            nk = len(keys[0]) if keys else len(descs)
            okeys = []
            for pos, i in enumerate(lidx):
                if i is None:
                    self.pre.add(bnot(rows[pos].present))
                    okeys.append([vnull("int")] * nk)
                else:
                    okeys.append(keys[i])
            order = (descs, okeys)
        return RelVal(cols, rows, order)

    def join_cond(self, tmp, cond, left, right):
        if isinstance(cond, str) and cond.startswith("=="):
            nm = cond[2:]
            li = [i for i, c in enumerate(left.cols) if c.name == nm]
            ri = [i for i, c in enumerate(right.cols) if c.name == nm]
            if len(li) != 1 or len(ri) != 1:
                raise Unsupported("generator bug: ==col must be unique on both sides")
            cells = tmp.rows[0].cells
            v = v_cmp("=", cells[li[0]], cells[len(left.cols) + ri[0]])
        else:
            v = self.ev(cond, tmp, 0)
        self.pre.add(bnot(v.unk))
        return is_true(v)

    def group(self, rv, t):
        n = len(rv.rows)
        kidx = [self.resolve(rv, e.a[0]) for e in t.keys]
        pk = [[r.cells[i] for i in kidx] for r in rv.rows]
        for i, ks in enumerate(pk):
            for v in ks:
                self.pre.add(bor(bnot(rv.rows[i].present), bnot(v.unk)))
        inner = t.inner
        if len(inner) == 1 and inner[0].k == "aggregate":
            agg = inner[0]
            rows = []
            for i, r in enumerate(rv.rows):
                leader = band(r.present, *[bnot(band(rv.rows[m].present, same_row(pk[m], pk[i]))) for m in range(i)])
                aggset = [(band(rv.rows[j].present, same_row(pk[j], pk[i])), j) for j in range(n)]
                cells = [r.cells[x] for x in kidx] + [self.ev(e, rv, i, None, aggset) for _, e in agg.items]
                rows.append(Row(leader, cells))
            cols = [Col(rv.cols[x].name, rv.cols[x].rel) for x in kidx] + [Col(nm) for nm, _ in agg.items]
            return RelVal(cols, rows, None)
        # row-preserving inner pipeline: sort / take / derive / window / filter / select
        cur = RelVal(rv.cols, rv.rows, None)
        for tt in inner:
            if tt.k == "sort":
                cur = self.step(cur, tt, None)
                continue
            if tt.k == "take" and cur.order is None and tt.lo in (None, 1) and tt.hi is None:
                continue           # `take 1..` keeps every row of every group
            if tt.k == "take" and cur.order is None:
                # `group {all columns} (take 1)` is the documented DISTINCT idiom
                if set(kidx) == set(range(len(cur.cols))) and tt.lo in (None, 1) and tt.hi == 1:
                    rows = [Row(band(r.present, *[bnot(band(cur.rows[m].present, same_row(pk[m], pk[i]))) for m in range(i)]), r.cells)
                            for i, r in enumerate(cur.rows)]
                    cur = RelVal(cur.cols, rows, None)
                    continue
                raise Unsupported("take inside group without sort")
            if tt.k == "aggregate":
                raise Unsupported("aggregate after other transforms inside group")
            w = WinCtx(cur.rows, pk, cur.order, None)
            cur = self.step(cur, tt, w)
            if tt.k in ("select",):
                raise Unsupported("select inside group")
        return RelVal(cur.cols, cur.rows, None)
