import re
"""check functions usable as pool jobs: (driver, payload, **kw) -> Outcome"""
import symdb


def _has_star(prog):
    def items(p):
        for t in p:
            if t.k == "select":
                for nm, e in t.items:
                    if nm is None and e.k == "star":
                        return True
            for sub in (getattr(t, "inner", None), getattr(t, "right", None)):
                if isinstance(sub, list) and items(sub):
                    return True
        return False
    return items(prog.main) or any(items(p) for _, p in list(prog.lets) + list(prog.into))


def c_prog(driver, prog, target="sql.sqlite", k=2, timeout_ms=20000, schema=None):
    o = symdb.check_program(prog, driver, target=target, k=k, timeout_ms=timeout_ms, schema=schema)
    if o.status == "violation" and _has_star(prog):
        # `rel.*` next to columns of rel: undocumented whether the star repeats them; a violation must hold under both readings
        prog.star_mode = "dedup"
        try:
            o2 = symdb.check_program(prog, driver, target=target, k=k, timeout_ms=timeout_ms, schema=schema)
        finally:
            prog.star_mode = "all"
        if o2.status != "violation":
            o = o2
            o.note = (getattr(o, "note", None) or "") + " (star read as 'each column once')"
        elif getattr(o, "kind", "") == "arity" and getattr(o2, "kind", "") != "arity":
            o = o2          # both readings fail: report the closer one
    o.features = sorted(getattr(prog, "features", set()) | {"target:" + target})
    if o.status == "violation" and getattr(o, "kind", "") == "result" and re.search(r"\b(INTERSECT|EXCEPT)\b", getattr(o, "sql", "") or ""):
        # the recognised set operations are known to differ from the join on NULL keys and on duplicate rows; ask again on
        # instances without either, so that a different defect of such a program is not hidden behind that finding
        o2 = symdb.check_program(prog, driver, target=target, k=k, timeout_ms=timeout_ms, schema=schema, extra_pre=symdb.clean_data_pre)
        if o2.status == "violation":
            o2.features = sorted(set(o.features) | {"clean-data"})
            o2.detail = "(on an instance without NULLs and without repeated values in any column) " + str(getattr(o2, "detail", ""))
            return o2
    return o


def c_prog_generic(driver, prog, k=2, timeout_ms=20000, schema=None):
    """the generic target, decided only where its text differs from the sqlite target's (that text is decided by c_prog)"""
    text = prog.text()
    a = driver.compile(text, "sql.sqlite")
    b = driver.compile(text, "sql.generic")
    if a.get("ok") and b.get("ok") and a.get("sql") == b.get("sql"):
        o = symdb.Outcome("same_text", prql=text, sql=b["sql"])
        o.features = sorted(getattr(prog, "features", set()) | {"target:sql.generic"})
        return o
    return c_prog(driver, prog, target="sql.generic", k=k, timeout_ms=timeout_ms, schema=schema)


def c_expr(driver, prog, target="sql.sqlite", timeout_ms=20000):
    import families
    feats = getattr(prog, "features", set())
    o = symdb.check_program(prog, driver, target=target, k=1, timeout_ms=timeout_ms, schema=families.C02_SCHEMA,
                            bound=(8 if "op**" in feats else symdb.VBOUND))
    o.features = sorted(getattr(prog, "features", set()) | {"target:" + target})
    return o


def c_equiv(driver, payload, target="sql.sqlite", k=2, timeout_ms=20000):
    base, rw, kind = payload
    o = symdb.check_equivalent(base, rw, driver, target=target, k=k, timeout_ms=timeout_ms)
    o.features = ["target:" + target, "rewrite:" + kind.split("@")[0]]
    return o
