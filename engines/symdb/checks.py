"""check functions usable as pool jobs: (driver, payload, **kw) -> Outcome"""
import symdb


def c_prog(driver, prog, target="sql.sqlite", k=2, timeout_ms=20000, schema=None):
    o = symdb.check_program(prog, driver, target=target, k=k, timeout_ms=timeout_ms, schema=schema)
    o.features = sorted(getattr(prog, "features", set()) | {"target:" + target})
    return o


def c_prog_generic(driver, prog, k=2, timeout_ms=20000, schema=None):
    """the generic target, decided only where its text differs from the sqlite target's (that text is decided by c_prog)"""
    text = prog.text()
    a = driver.compile(text, "sql.sqlite")
    b = driver.compile(text, "sql.generic")
    if a.get("ok") and b.get("ok") and a.get("sql") == b.get("sql"):
        o = symdb.Outcome("same_text", prql=text, sql=b["sql"])
        o.features = sorted(getattr(prog, "features", set()) | {"target:sql.generic"})
        return o
    return c_prog(driver, prog, target="sql.generic", k=k, timeout_ms=timeout_ms, schema=schema)


def c_expr(driver, prog, target="sql.sqlite", timeout_ms=20000):
    import families
    feats = getattr(prog, "features", set())
    o = symdb.check_program(prog, driver, target=target, k=1, timeout_ms=timeout_ms, schema=families.C02_SCHEMA,
                            bound=(8 if "op**" in feats else symdb.VBOUND))
    o.features = sorted(getattr(prog, "features", set()) | {"target:" + target})
    return o


def c_equiv(driver, payload, target="sql.sqlite", k=2, timeout_ms=20000):
    base, rw, kind = payload
    o = symdb.check_equivalent(base, rw, driver, target=target, k=k, timeout_ms=timeout_ms)
    o.features = ["target:" + target, "rewrite:" + kind.split("@")[0]]
    return o
