"""symdb: bounded translation validation of emitted SQL against the reference meaning of the program,
the database instance being symbolic.  One `check_program` call = one (program, target) pair:
compile with the real compiler, encode both sides over the same symbolic database, ask z3 whether
the results can differ within the bound, replay any model on real SQLite before reporting.
"""
import json
import os
import re
import sqlite3
import sys
import time
from fractions import Fraction

import z3

sys.path.insert(0, os.path.dirname(os.path.abspath(__file__)))
from rel import *  # noqa
import prql as P
import sqlsem as S

SCHEMA = {"t": ["a", "b", "c"], "u": ["a", "b"], "v": ["a", "d"]}
VBOUND = 1 << 20


class SymDB:
    """k symbolic rows per base table: presence flag + nullable Int cells, |value| <= bound"""

    def __init__(self, schema=None, k=2, bound=VBOUND, tag=""):
        self.schema = schema or SCHEMA
        self.k, self.bound = k, bound
        self.tabs = {}
        self.vars = {}
        self.domain = []
        for t, cols in self.schema.items():
            rows = []
            for i in range(k):
                p = z3.Bool(f"{tag}{t}_{i}_p")
                cells = []
                for c in cols:
                    nl = z3.Bool(f"{tag}{t}_{i}_{c}_n")
                    v = z3.Int(f"{tag}{t}_{i}_{c}_v")
                    self.domain.append(z3.And(v >= -bound, v <= bound))
                    cells.append(V(nl, v, "int"))
                    self.vars[(t, i, c)] = (nl, v)
                self.vars[(t, i)] = p
                rows.append(Row(p, cells))
            self.tabs[t] = (cols, rows)

    def has(self, name):
        return name in self.tabs

    def table(self, name):
        return self.tabs[name]

    def concrete(self, model):
        """{table: [tuple|...]} of the present rows under the model"""
        out = {}
        for t, (cols, rows) in self.tabs.items():
            rs = []
            for i in range(self.k):
                if z3.is_true(model.eval(self.vars[(t, i)], model_completion=True)):
                    r = []
                    for c in cols:
                        nl, v = self.vars[(t, i, c)]
                        if z3.is_true(model.eval(nl, model_completion=True)):
                            r.append(None)
                        else:
                            r.append(model.eval(v, model_completion=True).as_long())
                    rs.append(tuple(r))
            out[t] = rs
        return out


class ConcDB:
    """same interface, ground terms (replay: the very same semantics evaluated on a model)"""

    def __init__(self, schema, data):
        self.schema, self.data = schema, data
        self.tabs = {}
        for t, cols in schema.items():
            rows = [Row(T, [vnull("int") if x is None else vint(x) for x in r]) for r in data.get(t, [])]
            self.tabs[t] = (cols, rows)

    def has(self, name):
        return name in self.tabs

    def table(self, name):
        return self.tabs[name]


def clean_data_pre(db):
    """extra precondition: no NULL cell in a present row, no value twice in a column of a base table"""
    cs = []
    for t, (cols, rows) in db.tabs.items():
        for r_ in rows:
            for c_ in r_.cells:
                cs.append(z3.Or(z3.Not(r_.present), z3.Not(c_.null)))
        for i in range(len(rows)):
            for j in range(i + 1, len(rows)):
                for x in range(len(cols)):
                    # (per column: a projection of the table must not have duplicate rows either)
                    cs.append(z3.Not(z3.And(rows[i].present, rows[j].present, rows[i].cells[x].val == rows[j].cells[x].val)))
    return cs


def _concretise_pow(t):
    """replace pow(c1, c2) applications on numerals by their floating-point value (replay only)"""
    for _ in range(20):
        t = z3.simplify(t)
        apps = []

        def walk(x):
            if z3.is_app(x):
                if x.decl().name() == "pow" and all(z3.is_rational_value(c) or z3.is_int_value(c) for c in x.children()):
                    apps.append(x)
                    return
                for c in x.children():
                    walk(c)
        walk(t)
        if not apps:
            return t
        subs = []
        for a in apps:
            b, e = [float(c.numerator_as_long()) / float(c.denominator_as_long()) for c in a.children()]
            try:
                val = float(b) ** float(e)
                if isinstance(val, complex):
                    raise EngineMismatch("complex power")
            except (OverflowError, ZeroDivisionError):
                raise EngineMismatch("power overflow on replay")
            subs.append((a, z3.RealVal(str(Fraction(val).limit_denominator(10**12)))))
        t = z3.substitute(t, *subs)
    return t


def ground(v):
    """python value of a ground V"""
    if z3.is_true(z3.simplify(_concretise_pow(v.null))):
        return None
    t = _concretise_pow(num(v))
    if z3.is_int_value(t):
        return t.as_long()
    if z3.is_rational_value(t):
        return Fraction(t.numerator_as_long(), t.denominator_as_long())
    if z3.is_algebraic_value(t):
        return float(t.approx(12).as_fraction())
    raise EngineMismatch(f"non-ground value {t}")


class EngineMismatch(Exception):
    pass


def ground_result(cols, rows, order):
    """list of (rank|None, tuple) for present rows"""
    pres = [z3.is_true(z3.simplify(r.present)) for r in rows]
    rk = None
    if order is not None:
        descs, keys = order
        rk = ranks([r.present for r in rows], keys, descs)
    out = []
    for i, r in enumerate(rows):
        if pres[i]:
            vals = tuple(ground(c) for c in r.cells)
            rank = z3.simplify(rk[i]).as_long() if rk is not None else None
            out.append((rank, vals))
    return out


def norm(x):
    if x is None:
        return None
    if isinstance(x, bool):
        return float(int(x))
    return round(float(x), 7)


def rows_match(expected, actual, ordered):
    """expected: list of (rank, tuple); actual: list of tuples in returned order"""
    exp = [(rk, tuple(norm(x) for x in vals)) for rk, vals in expected]
    act = [tuple(norm(x) for x in r) for r in actual]
    if len(exp) != len(act):
        return False
    key = lambda r: tuple((0, 0.0) if x is None else (1, x) for x in r)
    if not ordered:
        return sorted(key(v) for _, v in exp) == sorted(key(v) for v in act)
    exp.sort(key=lambda p: p[0])
    pos = 0
    while pos < len(exp):
        end = pos
        while end < len(exp) and exp[end][0] == exp[pos][0]:
            end += 1
        if sorted(key(v) for _, v in exp[pos:end]) != sorted(key(v) for v in act[pos:end]):
            return False
        pos = end
    return True


def run_sqlite(schema, data, sql):
    # the generic target may emit `OFFSET n` without LIMIT (standard SQL); SQLite spells that LIMIT -1 OFFSET n
    sql = re.sub(r"(LIMIT -?\d+ )?OFFSET (\d+)", lambda m: m.group(0) if m.group(1) else f"LIMIT -1 OFFSET {m.group(2)}", sql)
    # `UNION DISTINCT` etc. (standard SQL, emitted for the generic target) is spelt without the keyword in SQLite
    sql = re.sub(r"\b(UNION|EXCEPT|INTERSECT) DISTINCT\b", r"\1", sql)
    con = sqlite3.connect(":memory:")
    try:
        for t, cols in schema.items():
            # "main.x" / "temp.x": schema-qualified tables (SQLite has both schemas in every connection)
            qt = ".".join(f'"{p_}"' for p_ in t.split("."))
            con.execute(f'CREATE TABLE {qt} (' + ", ".join(f'"{c}" INTEGER' for c in cols) + ")")
            for r in data.get(t, []):
                con.execute(f'INSERT INTO {qt} VALUES (' + ",".join("?" * len(cols)) + ")", r)
        cur = con.execute(sql)
        names = [d[0] for d in cur.description]
        return names, cur.fetchall()
    finally:
        con.close()


class Outcome:
    def __init__(self, status, **kw):
        self.status = status      # ok | violation | rejected | unsupported | inconclusive | mismatch | error
        self.__dict__.update(kw)

    def __repr__(self):
        return f"Outcome({self.status}, {{{', '.join(f'{k}={v!r}' for k, v in self.__dict__.items() if k != 'status')}}})"


def result_differs(ref, sql, ordered):
    """z3 Bool: results differ (bag, or bag extended with rank when an order is in effect)"""
    ra, rb = ref.rows, sql.rows
    if ordered:
        rka = ranks([r.present for r in ra], ref.order[1], ref.order[0])
        rkb = ranks([r.present for r in rb], sql.order[1], sql.order[0])
        ra = [Row(r.present, r.cells + [V(F, rka[i], "int")]) for i, r in enumerate(ra)]
        rb = [Row(r.present, r.cells + [V(F, rkb[i], "int")]) for i, r in enumerate(rb)]
    return bnot(bag_equal(ra, rb))


def check_program(prog, driver, target="sql.sqlite", k=2, schema=None, timeout_ms=20000, compare_names=True,
                  extra_pre=None, bound=VBOUND):
    """returns Outcome; never raises for expected conditions"""
    schema = schema or SCHEMA
    text = prog.text()
    t0 = time.time()
    executable = target in ("sql.sqlite", "sql.generic")
    r = driver.compile(text, target, want_ast=True, parse_dialect=target if target in ("sql.sqlite", "sql.duckdb", "sql.bigquery", "sql.snowflake") else "sql.generic")
    if r.get("panic") or r.get("crash"):
        return Outcome("panic", prql=text, detail=r.get("panic") or r.get("crash"))
    if not r.get("ok"):
        return Outcome("rejected", prql=text, detail="; ".join(str(e.get("reason")) for e in r.get("errors", [])))
    sql_text = r["sql"]
    dialect = "sqlite" if target == "sql.sqlite" else "generic"
    if "ast" not in r:
        o = structural(prog, text, sql_text, schema, f"emitted SQL does not parse: {r.get('ast_error')}")
        if o.status == "violation":
            return o
        return Outcome("sql_unparseable", prql=text, sql=sql_text, detail=r.get("ast_error"))
    if target == "sql.sqlite":
        # the sqlite target's output must at least prepare on SQLite (cheap, on an empty instance)
        try:
            run_sqlite(schema, {}, sql_text)
        except sqlite3.Error as e:
            return Outcome("violation", kind="sqlite_error", prql=text, sql=sql_text, data={}, detail=f"SQLite rejects the emitted SQL: {e}")
    db = SymDB(schema, k, bound)
    pre = P.Pre()
    try:
        ref = P.Ref(db, prog, pre).run()
    except Unsupported as e:
        return Outcome("ref_unsupported", prql=text, sql=sql_text, detail=str(e))
    sem = S.SqlSem(db, dialect)
    try:
        try:
            sq = sem.run(r["ast"])
        except S.BindError as e:
            if dialect == "generic" and "ambiguous" in str(e) and " / " not in sql_text:
                # standard SQL rejects the reference, no engine here can confirm that; continue under SQLite's
                # reading (first match inside one sub-query) so that the values are still checked
                sem = S.SqlSem(db, "sqlite")
                sem.notes_generic_ambiguity = str(e)
                sq = sem.run(r["ast"])
                dialect = "sqlite"
            else:
                raise
    except S.BindError as e:
        if not executable:
            return Outcome("unconfirmed_bind", prql=text, sql=sql_text, detail=f"bind: {e} (no engine for {target} here: not reported)")
        return structural(prog, text, sql_text, schema, f"bind: {e}")
    except Unsupported as e:
        if "LIMIT without ORDER BY" in str(e) and executable:
            o = confirm_concrete(prog, text, sql_text, schema, "LIMIT without ORDER BY while the take is positional")
            if o is not None:
                return o
        if "bare column" in str(e) and executable:
            o = confirm_concrete(prog, text, sql_text, schema, str(e))
            if o is not None:
                return o
        return Outcome("sql_unsupported", prql=text, sql=sql_text, detail=str(e))
    # schema: arity, then names where PRQL names the column
    if not executable:
        # no engine for this dialect here: the result schema computed by the binder from the re-parsed text is the
        # observation (deterministic; re-derived on replay by compiling again)
        exp, got = [c.name for c in ref.cols], [c.name for c in sq.cols]
        if len(exp) != len(got):
            return Outcome("violation", kind="arity", prql=text, sql=sql_text, data=None,
                           detail=f"arity: final frame has {len(exp)} columns {exp}, the emitted {target} SQL returns {len(got)} {got} (schema bound from the re-parsed text); SQLite returns columns {got}, final frame is {exp}")
        bad = [(i, e_, g_) for i, (e_, g_) in enumerate(zip(exp, got)) if e_ and e_ != g_]
        if bad and compare_names:
            return Outcome("violation", kind="names", prql=text, sql=sql_text, data=None,
                           detail=f"names: {bad}; SQLite returns columns {got}, final frame is {exp}")
    drop = None
    if len(ref.cols) != len(sq.cols):
        arity = structural(prog, text, sql_text, schema,
                           f"arity: final frame has {len(ref.cols)} columns {ref.cols}, SQL returns {len(sq.cols)} {sq.cols}",
                           expect_cols=[c.name for c in ref.cols])
        # A generated column that leaks through `SELECT *` is a known class of defect. So that such a program is not blind to
        # everything else, the values are still compared with the generated column(s) set aside: a value difference is
        # reported as such, otherwise the arity difference is.
        helper = [i for i, c in enumerate(sq.cols) if c.name and HELPER_COL.match(c.name)]
        if not (executable and arity.status == "violation" and getattr(arity, "kind", "") == "arity" and helper
                and len(sq.cols) - len(helper) == len(ref.cols) and not any(c.name and HELPER_COL.match(c.name) for c in ref.cols)):
            return arity
        keep = [i for i in range(len(sq.cols)) if i not in helper]
        sq = S.SRel([sq.cols[i] for i in keep], [Row(r_.present, [r_.cells[i] for i in keep]) for r_ in sq.rows], sq.order)
        drop = helper
        if any(c.name and c.name != s_.name for c, s_ in zip(ref.cols, sq.cols)):
            return arity          # the columns are also permuted or renamed: a positional value comparison says nothing new
        compare_names = False
    o = _compare_values(prog, text, sql_text, schema, db, pre, ref, sq, r, sem, dialect, target, executable, timeout_ms, compare_names, extra_pre, drop)
    if drop is not None:
        if o.status == "violation" and getattr(o, "kind", "") == "result":
            o.detail = f"(generated column(s) leaking through * set aside: positions {drop}) " + o.detail
            return o
        return arity
    return o


HELPER_COL = re.compile(r"^_expr_\d+$")


def _compare_values(prog, text, sql_text, schema, db, pre, ref, sq, r, sem, dialect, target, executable, timeout_ms, compare_names, extra_pre, drop):
    if compare_names:
        bad = [(i, c.name, s.name) for i, (c, s) in enumerate(zip(ref.cols, sq.cols)) if c.name and c.name != s.name]
        if not bad:
            # a name that denotes one column of the final frame must denote one column of the result: a shadowed (now unnamed)
            # column must not come back under the name that shadows it
            rn = [c.name for c in ref.cols if c.name]
            dup = [(i, None, s.name) for i, (c, s) in enumerate(zip(ref.cols, sq.cols)) if not c.name and s.name in rn and rn.count(s.name) == 1]
            if dup:
                # confirm on SQLite: the name must really occur more than once among the result's column names
                data_ = {t_: [tuple(range(1 + i, 1 + i + len(cols_))) for i in range(2)] for t_, cols_ in schema.items()}
                try:
                    names_, _ = run_sqlite(schema, data_, sql_text)
                except sqlite3.Error as e_:
                    return Outcome("violation", kind="sqlite_error", prql=text, sql=sql_text, data=data_, detail=f"names: {dup}; SQLite: {e_}")
                names_ = [re.sub(r":\d+$", "", n_) for n_ in names_]
                twice = sorted({n_ for _, _, n_ in dup if names_.count(n_) > 1})
                if twice:
                    return Outcome("violation", kind="names", prql=text, sql=sql_text, data=data_,
                                   detail=f"names: a shadowed (unnamed) column of the final frame comes back under the name that shadows it: {twice}; "
                                          f"SQLite returns columns {names_}, final frame is {[c.name for c in ref.cols]}")
        if bad:
            names_out = structural(prog, text, sql_text, schema, f"names: {bad}", expect_cols=[c.name for c in ref.cols])
            # a column that merely got a generated name (duplicate names at a split) does not make the program blind to wrong
            # values: compare them too. (When columns are permuted, a positional value comparison says nothing new.)
            if not all(sn and HELPER_COL.match(sn) for _, _, sn in bad):
                return names_out
            o = _compare_values(prog, text, sql_text, schema, db, pre, ref, sq, r, sem, dialect, target, executable, timeout_ms, False, extra_pre, drop)
            if o.status == "violation" and getattr(o, "kind", "") == "result" and names_out.status == "violation":
                o.detail = f"(besides {names_out.detail[:100]}) " + o.detail
                return o
            return names_out
    ordered = ref.order is not None
    note = None
    if ordered and sq.order is None:
        note = "order in effect but no top-level ORDER BY"
        ordered_cmp = False
    else:
        ordered_cmp = ordered
    try:
        diff = result_differs(ref, sq, ordered_cmp)
    except Unsupported as e:
        return Outcome("sql_unsupported", prql=text, sql=sql_text, detail=str(e))
    s = z3.Solver()
    s.set("timeout", timeout_ms)
    s.add(*db.domain)
    s.add(*pre.conds)
    s.add(*getattr(sem, "nondet", []))       # instances on which ORDER BY .. LIMIT has to choose among ties are left out
    if extra_pre:
        s.add(*extra_pre(db))
    # vacuity guard: preconditions satisfiable
    ts = time.time()
    s.push()
    s.add(diff)
    res = s.check()
    dt = time.time() - ts
    if res == z3.unsat:
        s.pop()
        vac = s.check()
        if vac != z3.sat:
            return Outcome("vacuous", prql=text, sql=sql_text, detail=f"preconditions {vac}")
        if note:
            conf = confirm_order_loss(prog, text, sql_text, schema)
            if conf is not None:
                return conf
            return Outcome("ok", prql=text, sql=sql_text, solver_s=dt, note=note + " (not reproducible on SQLite: not reported)")
        return Outcome("ok", prql=text, sql=sql_text, solver_s=dt)
    if res != z3.sat:
        return Outcome("inconclusive", prql=text, sql=sql_text, detail=str(s.reason_unknown()), solver_s=dt)
    data = db.concrete(s.model())
    if not executable:
        return Outcome("unreplayable", prql=text, sql=sql_text, data=data, detail=f"no engine for {target} in this sandbox", solver_s=dt)
    if dialect == "generic" and sem.notes:
        # the reading that produced the model is not SQLite's: cannot be replayed, hence not reported
        return Outcome("unreplayable", prql=text, sql=sql_text, data=data, detail="; ".join(sorted(sem.notes)), solver_s=dt)
    return replay(prog, text, sql_text, schema, data, r["ast"], ordered, solver_s=dt, drop=drop)


def _drop_cols(rows, drop):
    if not drop:
        return rows
    return [tuple(v for i, v in enumerate(r_) if i not in drop) for r_ in rows]


def replay(prog, text, sql_text, schema, data, ast=None, ordered=None, solver_s=0.0, drop=None):
    """evaluate the reference on the concrete instance, run the SQL on real SQLite, compare"""
    uses_uf = False
    cdb = ConcDB(schema, data)
    pre = P.Pre()
    ref = P.Ref(cdb, prog, pre).run()
    # the instance must satisfy the reference preconditions (ties etc.)
    for c in pre.conds:
        if not z3.is_true(z3.simplify(c)):
            return Outcome("mismatch", prql=text, sql=sql_text, data=data, detail="model violates a precondition on replay")
    exp = ground_result(ref.cols, ref.rows, ref.order)
    is_ordered = ref.order is not None
    try:
        names, act = run_sqlite(schema, data, sql_text)
        act = _drop_cols(act, drop)
    except sqlite3.Error as e:
        return Outcome("violation", kind="sqlite_error", prql=text, sql=sql_text, data=data, detail=f"SQLite rejects the emitted SQL: {e}",
                       expected=[v for _, v in exp], solver_s=solver_s)
    if ast is not None:
        # encoder self-check on this instance
        try:
            csem = S.SqlSem(cdb, "sqlite")
            sq = csem.run(ast)
            if any(z3.is_false(z3.simplify(c_)) for c_ in csem.nondet):
                return Outcome("unreproduced_nondet", prql=text, sql=sql_text, data=data, detail="ORDER BY .. LIMIT chooses among tied rows on this instance")
            if drop:
                keep = [i for i in range(len(sq.cols)) if i not in drop]
                sq = S.SRel([sq.cols[i] for i in keep], [Row(r_.present, [r_.cells[i] for i in keep]) for r_ in sq.rows], sq.order)
            enc = ground_result(sq.cols, sq.rows, sq.order)
            if not rows_match(enc, act, sq.order is not None):
                return Outcome("mismatch", prql=text, sql=sql_text, data=data,
                               detail=f"encoder disagrees with SQLite: encoder={enc} sqlite={act}")
        except (Unsupported, S.BindError, EngineMismatch) as e:
            return Outcome("mismatch", prql=text, sql=sql_text, data=data, detail=f"encoder failed on replay: {e}")
    uses_uf = "POW(" in sql_text.upper()
    if rows_match(exp, act, is_ordered):
        return Outcome("unreproduced_uf" if uses_uf else "unreproduced", prql=text, sql=sql_text, data=data, expected=exp, actual=act, solver_s=solver_s)
    return Outcome("violation", kind="result", prql=text, sql=sql_text, data=data,
                   expected=[list(v) for _, v in sorted(exp, key=lambda p: (p[0] or 0))] if is_ordered else [list(v) for _, v in exp],
                   actual=[list(r) for r in act], ordered=is_ordered, solver_s=solver_s,
                   detail="SQLite result differs from the reference meaning")


def check_equivalent(base, rw, driver, target="sql.sqlite", k=2, schema=None, timeout_ms=20000):
    """C06: the SQL emitted for a program and for its rewritten form are equivalent on every instance within the
    bound (no reference semantics involved; the reference of the base program only supplies the order status
    and the tie/NULL preconditions)"""
    schema = schema or SCHEMA
    ta, tb = base.text(), rw.text()
    pd = target if target == "sql.sqlite" else "sql.generic"
    ra = driver.compile(ta, target, want_ast=True, parse_dialect=pd)
    if not ra.get("ok") or "ast" not in ra:
        return Outcome("base_rejected", prql=ta, detail=str(ra.get("errors") or ra.get("panic") or ra.get("ast_error"))[:300])
    rb = driver.compile(tb, target, want_ast=True, parse_dialect=pd)
    if rb.get("panic") or rb.get("crash"):
        return Outcome("panic", prql=tb, base=ta, detail=rb.get("panic") or rb.get("crash"))
    if not rb.get("ok"):
        return Outcome("violation", kind="rewrite_rejected", prql=tb, base=ta, sql=ra["sql"],
                       detail="the rewritten program is rejected: " + "; ".join(str(e.get("reason")) for e in rb.get("errors", []))[:300])
    if "ast" not in rb:
        return Outcome("sql_unparseable", prql=tb, base=ta, sql=rb["sql"], detail=rb.get("ast_error"))
    if ra["sql"] == rb["sql"]:
        return Outcome("ok", prql=tb, base=ta, sql=rb["sql"], identical=True, solver_s=0.0)
    if target == "sql.sqlite":
        # the sqlite target's output must at least prepare on SQLite (cheap, on an empty instance) when the base program's does
        try:
            run_sqlite(schema, {}, ra["sql"])
            base_prepares = True
        except sqlite3.Error:
            base_prepares = False
        if base_prepares:
            try:
                run_sqlite(schema, {}, rb["sql"])
            except sqlite3.Error as e:
                return Outcome("violation", kind="sqlite_error", prql=tb, base=ta, sql=rb["sql"], base_sql=ra["sql"], data={},
                               detail=f"SQLite rejects the rewritten program's SQL: {e}")
    db = SymDB(schema, k)
    pre = P.Pre()
    dialect = "sqlite" if target == "sql.sqlite" else "generic"
    try:
        ref = P.Ref(db, base, pre).run()
        ordered = ref.order is not None
    except Unsupported as e:
        return Outcome("ref_unsupported", prql=tb, base=ta, detail=str(e))
    try:
        semA, semB = S.SqlSem(db, dialect), S.SqlSem(db, dialect)
        A = semA.run(ra["ast"])
        B = semB.run(rb["ast"])
    except (S.BindError, Unsupported) as e:
        # the base program's own problems belong to C01/C03/C05; only an asymmetry matters here
        try:
            S.SqlSem(db, dialect).run(ra["ast"])
        except (S.BindError, Unsupported):
            return Outcome("base_unsupported", prql=tb, base=ta, detail=str(e))
        if isinstance(e, Unsupported):
            if "LIMIT without ORDER BY" in str(e) or "bare column" in str(e):
                # only the rewritten program's SQL leaves its result open: report if real SQLite makes the two programs
                # differ on a concrete instance that satisfies the base program's preconditions
                for data in concrete_instances(schema):
                    cdb = ConcDB(schema, data)
                    cpre = P.Pre()
                    try:
                        P.Ref(cdb, base, cpre).run()
                    except Unsupported:
                        break
                    if not all(z3.is_true(z3.simplify(c)) for c in cpre.conds):
                        continue
                    try:
                        _, rows_a = run_sqlite(schema, data, ra["sql"])
                        _, rows_b = run_sqlite(schema, data, rb["sql"])
                    except sqlite3.Error:
                        break
                    if not rows_match([(i, r) for i, r in enumerate(rows_a)], rows_b, ordered):
                        return Outcome("violation", kind="nondeterministic_sql", prql=tb, base=ta, sql=rb["sql"], base_sql=ra["sql"], data=data, ordered=ordered,
                                       expected=[list(r) for r in rows_a], actual=[list(r) for r in rows_b],
                                       detail=f"{e}; on SQLite the rewritten program returns different rows than the base program")
            return Outcome("sql_unsupported", prql=tb, base=ta, sql=rb["sql"], base_sql=ra["sql"], detail=str(e))
        # confirm on real SQLite before reporting
        data = {t: [tuple(range(1 + i, 1 + i + len(cols))) for i in range(2)] for t, cols in schema.items()}
        try:
            run_sqlite(schema, data, rb["sql"])
        except sqlite3.Error as e2:
            return Outcome("violation", kind="sqlite_error", prql=tb, base=ta, sql=rb["sql"], base_sql=ra["sql"], data=data,
                           detail=f"rewritten program's SQL does not bind: {e}; SQLite: {e2}")
        return Outcome("sql_unsupported", prql=tb, base=ta, sql=rb["sql"], base_sql=ra["sql"], detail=f"binder rejects ({e}) but SQLite accepts the rewritten program's SQL")
    if len(A.cols) != len(B.cols):
        return Outcome("violation", kind="arity", prql=tb, base=ta, sql=rb["sql"], base_sql=ra["sql"],
                       detail=f"base SQL returns {[c.name for c in A.cols]}, rewritten returns {[c.name for c in B.cols]}")
    cmp_ordered = ordered and A.order is not None and B.order is not None
    if ordered and (A.order is None) != (B.order is None):
        # one of the two texts has lost its top-level ORDER BY: SQL then leaves the order open; report only if real
        # SQLite returns the two results in different orders on a concrete instance that satisfies the preconditions
        for data in concrete_instances(schema):
            cdb = ConcDB(schema, data)
            cpre = P.Pre()
            try:
                P.Ref(cdb, base, cpre).run()
            except Unsupported:
                break
            if not all(z3.is_true(z3.simplify(c)) for c in cpre.conds):
                continue
            try:
                _, rows_a = run_sqlite(schema, data, ra["sql"])
                _, rows_b = run_sqlite(schema, data, rb["sql"])
            except sqlite3.Error:
                break
            if not rows_match([(i, r) for i, r in enumerate(rows_a)], rows_b, True):
                return Outcome("violation", kind="result", prql=tb, base=ta, sql=rb["sql"], base_sql=ra["sql"], data=data, ordered=True,
                               expected=[list(r) for r in rows_a], actual=[list(r) for r in rows_b],
                               detail="the rewritten program returns the rows in a different order than the base program (one of the two SQL texts has no top-level ORDER BY)")
    try:
        diff = result_differs(_asref(A), B, cmp_ordered)
    except Unsupported as e:
        return Outcome("sql_unsupported", prql=tb, base=ta, detail=str(e))
    s = z3.Solver()
    s.set("timeout", timeout_ms)
    s.add(*db.domain)
    s.add(*pre.conds)
    s.add(*semA.nondet)
    s.add(*semB.nondet)
    s.add(diff)
    ts = time.time()
    res = s.check()
    dt = time.time() - ts
    if res == z3.unsat:
        return Outcome("ok", prql=tb, base=ta, sql=rb["sql"], base_sql=ra["sql"], solver_s=dt)
    if res != z3.sat:
        return Outcome("inconclusive", prql=tb, base=ta, detail=str(s.reason_unknown()), solver_s=dt)
    data = db.concrete(s.model())
    try:
        na, rows_a = run_sqlite(schema, data, ra["sql"])
    except sqlite3.Error as e:
        return Outcome("base_unsupported", prql=tb, base=ta, detail=f"base SQL fails on SQLite: {e}")
    try:
        nb, rows_b = run_sqlite(schema, data, rb["sql"])
    except sqlite3.Error as e:
        return Outcome("violation", kind="sqlite_error", prql=tb, base=ta, sql=rb["sql"], base_sql=ra["sql"], data=data, detail=f"SQLite rejects the rewritten program's SQL: {e}")
    same = rows_match([(i, r) for i, r in enumerate(rows_a)], rows_b, ordered)
    if same:
        import re as _re
        nondet = _re.search(r"(ROW_NUMBER|LAG|LEAD|FIRST_VALUE|LAST_VALUE)\([^()]*\) OVER \((PARTITION BY [^()]*)?\)", ra["sql"] + " " + rb["sql"]) or \
            _re.search(r"OVER \((PARTITION BY [^()]*)?ROWS ", ra["sql"] + " " + rb["sql"])
        return Outcome("unreproduced_nondet" if nondet else "unreproduced", prql=tb, base=ta, sql=rb["sql"], base_sql=ra["sql"], data=data, solver_s=dt,
                       detail="positional window function without ORDER BY: SQL leaves the row order open; SQLite's choice makes both programs agree" if nondet else "")
    return Outcome("violation", kind="result", prql=tb, base=ta, sql=rb["sql"], base_sql=ra["sql"], data=data, ordered=ordered,
                   expected=[list(r) for r in rows_a], actual=[list(r) for r in rows_b], solver_s=dt,
                   detail="the rewritten program returns different rows than the base program")


def _asref(A):
    return A


def structural(prog, text, sql_text, schema, why, expect_cols=None):
    """binder/arity/name problems: confirm on real SQLite with a small concrete instance before reporting"""
    data = {t: [tuple(range(1 + i, 1 + i + len(cols))) for i in range(2)] for t, cols in schema.items()}
    try:
        names, act = run_sqlite(schema, data, sql_text)
    except sqlite3.Error as e:
        return Outcome("violation", kind="sqlite_error", prql=text, sql=sql_text, data=data, detail=f"{why}; SQLite: {e}")
    if expect_cols is not None:
        if len(names) != len(expect_cols):
            return Outcome("violation", kind="arity", prql=text, sql=sql_text, data=data,
                           detail=f"{why}; SQLite returns columns {names}, final frame is {expect_cols}")
        bad = [(e, n) for e, n in zip(expect_cols, names) if e and e != n]
        if bad:
            return Outcome("violation", kind="names", prql=text, sql=sql_text, data=data,
                           detail=f"{why}; SQLite returns columns {names}, final frame is {expect_cols}")
    return Outcome("mismatch", prql=text, sql=sql_text, data=data, detail=f"{why}; but SQLite accepts it and returns {names}")


def concrete_instances(schema, n=8):
    """a few fixed instances with pairwise distinct, non-null values per column (no ties anywhere)"""
    import random
    out = []
    # (1) instances whose first columns hold the same set of values in every table, in different row orders: every
    #     equi-join on the first column matches 1:1, so preconditions that exclude unmatched rows are satisfiable
    for s in range(n // 2):
        rnd = random.Random(2000 + s)
        data = {}
        k = 3
        keys = rnd.sample(range(-4, 9), k)
        for t, cols in schema.items():
            colvals = [rnd.sample(keys, k)] + [rnd.sample(range(-4, 9), k) for _ in cols[1:]]
            data[t] = [tuple(colvals[c][i] for c in range(len(cols))) for i in range(k)]
        out.append(data)
    # (2) unrelated values
    for s in range(n - n // 2):
        rnd = random.Random(1000 + s)
        data = {}
        for t, cols in schema.items():
            k = 3
            colvals = [rnd.sample(range(-4, 9), k) for _ in cols]
            data[t] = [tuple(colvals[c][i] for c in range(len(cols))) for i in range(k)]
        out.append(data)
    return out


def confirm_concrete(prog, text, sql_text, schema, why):
    """SQL whose result the standard leaves open: report only if real SQLite deviates from the reference
    on a concrete instance that satisfies the reference preconditions"""
    for data in concrete_instances(schema):
        o = replay(prog, text, sql_text, schema, data, None)
        if o.status == "violation":
            o.detail = why + "; " + o.detail
            o.kind = "nondeterministic_sql"
            return o
    return None


def confirm_order_loss(prog, text, sql_text, schema):
    return confirm_concrete(prog, text, sql_text, schema, "order in effect but no top-level ORDER BY")


if __name__ == "__main__":
    sys.path.insert(0, os.path.join(os.path.dirname(os.path.abspath(__file__)), "..", "..", "lib"))
    from core import Driver
    from prql import *  # noqa
    d = Driver(os.environ.get("VDRIVER", "/verif/.build/driver/debug/vdriver"))
    src = sys.stdin.read()
    for line in src.strip().split("\n"):
        if not line.strip() or line.startswith("#"):
            continue
        prog = eval(line)
        if not isinstance(prog, Prog):
            prog = Prog(prog)
        o = check_program(prog, d, k=int(os.environ.get("K", "2")))
        print(o.status, "|", prog.text().strip().replace("\n", " | "))
        print("    sql:", getattr(o, "sql", None))
        for kk in ("detail", "data", "expected", "actual", "note", "solver_s"):
            if hasattr(o, kk):
                print(f"    {kk}: {getattr(o, kk)}")
