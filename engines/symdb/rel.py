"""Bounded symbolic relations over z3: scalar values with NULL, rows with presence flags,
and the relational primitives both the PRQL reference semantics and the SQL semantics are built on.

A scalar V = (null: Bool, val: Int|Real|Bool term, ty in {'int','real','bool'}).
A row = (present: Bool, cells: [V]).  Everything also works on concrete (ground) terms; `simplify`
then yields values, which is how replay evaluates the very same definitions on a model.
"""
import z3
from z3 import And, Or, Not, If, BoolVal, IntVal, RealVal, Sum, ToReal, ToInt

T, F = BoolVal(True), BoolVal(False)


class Unsupported(Exception):
    """Construct outside the encoded subset (counted, never a pass or a violation by itself)."""


class V:
    """unk: the documented meaning leaves this value open on this instance (e.g. a windowed `sum` over a
    segment without non-null values); an unk cell matches anything, and the reference adds the
    precondition that no unk value decides which rows exist or how they are ordered."""
    __slots__ = ("null", "val", "ty", "unk")

    def __init__(self, null, val, ty, unk=None):
        self.null, self.val, self.ty = null, val, ty
        self.unk = F if unk is None else unk

    def __repr__(self):
        return f"V({self.ty},{self.null},{self.val})"


def _prop(fn):
    """result.unk = OR of the unk flags of all V arguments"""
    def w(*a, **kw):
        r = fn(*a, **kw)
        us = [x.unk for x in a if isinstance(x, V)]
        us = [u for u in us if not z3.is_false(u)]
        if us and isinstance(r, V):
            r.unk = bor(r.unk, *us)
        return r
    w.__name__ = fn.__name__
    return w


def vint(n):
    return V(F, IntVal(n), "int")


def vreal(x):
    return V(F, RealVal(x), "real")


def vbool(b):
    return V(F, BoolVal(bool(b)), "bool")


def vnull(ty="int"):
    return V(T, {"int": IntVal(0), "real": RealVal(0), "bool": F}[ty], ty)


def band(*xs):
    xs = [x for x in xs if not z3.is_true(x)]
    if any(z3.is_false(x) for x in xs):
        return F
    return T if not xs else (xs[0] if len(xs) == 1 else And(*xs))


def bor(*xs):
    xs = [x for x in xs if not z3.is_false(x)]
    if any(z3.is_true(x) for x in xs):
        return T
    return F if not xs else (xs[0] if len(xs) == 1 else Or(*xs))


def bnot(x):
    if z3.is_true(x):
        return F
    if z3.is_false(x):
        return T
    return Not(x)


def ite(c, a, b):
    if z3.is_true(c):
        return a
    if z3.is_false(c):
        return b
    return If(c, a, b)


def num(v):
    """numeric z3 term of a value (bool -> 0/1)"""
    if v.ty == "bool":
        return ite(v.val, IntVal(1), IntVal(0))
    return v.val


@_prop
def as_num(v):
    return V(v.null, num(v), "int") if v.ty == "bool" else v


def real_of(t):
    return t if t.sort() == z3.RealSort() else ToReal(t)


def unify(a, b):
    """numeric terms of a common sort"""
    x, y = num(a), num(b)
    if x.sort() != y.sort():
        x, y = real_of(x), real_of(y)
    return x, y


def is_true(v):
    """SQL/PRQL condition holds: non-null and true (numbers: non-zero)"""
    if v.ty == "bool":
        return band(bnot(v.null), v.val)
    return band(bnot(v.null), v.val != 0)


@_prop
def truth(v):
    """bool view of a value"""
    if v.ty == "bool":
        return v
    return V(v.null, v.val != 0, "bool")


def same(a, b):
    """cell identity for result comparison and grouping: NULL matches NULL, numbers by value"""
    x, y = unify(a, b)
    return bor(a.unk, b.unk, band(a.null, b.null), band(bnot(a.null), bnot(b.null), x == y))


def same_row(r1, r2):
    return band(*[same(a, b) for a, b in zip(r1, r2)])


# ------------------------------------------------------------------ scalar operators (SQL 3-valued)


@_prop
def v_and(a, b):
    a, b = truth(a), truth(b)
    fa, fb = band(bnot(a.null), bnot(a.val)), band(bnot(b.null), bnot(b.val))
    isfalse = bor(fa, fb)
    null = band(bnot(isfalse), bor(a.null, b.null))
    return V(null, band(bnot(isfalse), bnot(null)), "bool")


@_prop
def v_or(a, b):
    a, b = truth(a), truth(b)
    ta, tb = band(bnot(a.null), a.val), band(bnot(b.null), b.val)
    istrue = bor(ta, tb)
    null = band(bnot(istrue), bor(a.null, b.null))
    return V(null, istrue, "bool")


@_prop
def v_not(a):
    a = truth(a)
    return V(a.null, bnot(a.val), "bool")


@_prop
def v_cmp(op, a, b):
    x, y = unify(a, b)
    t = {"=": x == y, "<>": x != y, "<": x < y, "<=": x <= y, ">": x > y, ">=": x >= y}[op]
    return V(bor(a.null, b.null), t, "bool")


@_prop
def v_isnull(a, negate=False):
    return V(F, bnot(a.null) if negate else a.null, "bool")


def _rty(a, b):
    return "real" if "real" in (a.ty, b.ty) else "int"


@_prop
def v_arith(op, a, b):
    """+ - * with SQL NULL propagation; int op int = int, otherwise real"""
    x, y = unify(a, b)
    t = {"+": x + y, "-": x - y, "*": x * y}[op]
    return V(bor(a.null, b.null), t, _rty(a, b))


def trunc_div(x, y):
    """integer division truncating toward zero (z3 div is floor for positive divisor / euclidean)"""
    ax, ay = ite(x >= 0, x, -x), ite(y >= 0, y, -y)
    q = ax / ay  # both non-negative: z3 Int '/' is div
    return ite((x >= 0) == (y >= 0), q, -q)


def trunc_rem(x, y):
    return x - y * trunc_div(x, y)


@_prop
def v_div_sql(a, b, zero_is_null=True):
    """SQLite '/' : int/int truncates, otherwise real; division by zero yields NULL"""
    x, y = unify(a, b)
    ty = _rty(a, b)
    null = bor(a.null, b.null, (y == 0) if zero_is_null else F)
    if ty == "int":
        return V(null, trunc_div(x, y), "int")
    return V(null, x / y, "real")


@_prop
def v_div_real(a, b):
    x, y = real_of(num(a)), real_of(num(b))
    return V(bor(a.null, b.null, y == 0), x / y, "real")


@_prop
def v_div_int(a, b):
    """PRQL // : truncation toward zero of the quotient"""
    x, y = unify(a, b)
    if _rty(a, b) == "int":
        return V(bor(a.null, b.null, y == 0), trunc_div(x, y), "int")
    q = x / y
    return V(bor(a.null, b.null, y == 0), v_trunc_real(q), "int")


def v_trunc_real(q):
    return ite(q >= 0, ToInt(q), -ToInt(-q))


@_prop
def v_mod(a, b):
    x, y = unify(a, b)
    if _rty(a, b) != "int":
        raise Unsupported("real modulo")
    return V(bor(a.null, b.null, y == 0), trunc_rem(x, y), "int")


POW = z3.Function("pow", z3.RealSort(), z3.RealSort(), z3.RealSort())


@_prop
def v_pow(base, exp):
    """exponentiation as an uninterpreted function (same symbol on both sides): checks which operands reach
    POW and how they group, not the numeric value"""
    return V(bor(base.null, exp.null), POW(real_of(num(base)), real_of(num(exp))), "real")


@_prop
def v_neg(a):
    a = as_num(a)
    return V(a.null, -a.val, a.ty)


@_prop
def v_coalesce(*vs):
    vs = [as_num(v) if any(w.ty != "bool" for w in vs) else v for v in vs]
    ty = "real" if any(v.ty == "real" for v in vs) else vs[0].ty
    out = None
    for v in reversed(vs):
        val = v.val
        if ty == "real" and v.ty != "real":
            val = real_of(num(v))
        if out is None:
            out = V(v.null, val, ty)
        else:
            out = V(band(v.null, out.null), ite(v.null, out.val, val), ty)
    return out


def v_ite(c, a, b):
    """c: z3 Bool"""
    r = _v_ite(c, a, b)
    r.unk = ite(c, a.unk, b.unk)
    return r


def _v_ite(c, a, b):
    if a.ty != b.ty:
        if "real" in (a.ty, b.ty):
            a = V(a.null, real_of(num(a)), "real")
            b = V(b.null, real_of(num(b)), "real")
        else:
            a, b = as_num(a), as_num(b)
    return V(ite(c, a.null, b.null), ite(c, a.val, b.val), a.ty)


@_prop
def v_round_half_away(a):
    """SQLite ROUND(x): to nearest, halves away from zero; result is REAL"""
    x = real_of(num(a))
    r = ite(x >= 0, ToInt(x + RealVal("1/2")), -ToInt(-x + RealVal("1/2")))
    return V(a.null, ToReal(r), "real")


@_prop
def v_abs(a):
    a = as_num(a)
    return V(a.null, ite(a.val >= 0, a.val, -a.val), a.ty)


@_prop
def v_sign(a):
    a = as_num(a)
    z = a.val
    return V(a.null, ite(z > 0, IntVal(1), ite(z < 0, IntVal(-1), IntVal(0))), "int")


@_prop
def v_floor(a):
    a = as_num(a)
    if a.ty == "int":
        return a
    return V(a.null, ToInt(a.val), "int")


# ------------------------------------------------------------------ rows / relations

class Row:
    __slots__ = ("present", "cells")

    def __init__(self, present, cells):
        self.present, self.cells = present, cells


def count_if(conds):
    conds = [c for c in conds if not z3.is_false(c)]
    if not conds:
        return IntVal(0)
    return Sum([ite(c, IntVal(1), IntVal(0)) for c in conds])


# aggregates over members: list of (cond, V)
def agg_count(members):
    return V(F, count_if([c for c, _ in members]), "int")


def agg_count_nonnull(members):
    return V(F, count_if([band(c, bnot(v.null)) for c, v in members]), "int", _agg_unk(members))


def _agg_unk(members):
    return bor(*[band(c, v.unk) for c, v in members])


def agg_sum(members):
    r = _agg_sum(members)
    r.unk = _agg_unk(members)
    return r


def _agg_sum(members):
    """SQL SUM: NULL when no non-null input"""
    if not members:
        return vnull("int")
    ty = "real" if any(v.ty == "real" for _, v in members) else "int"
    zero = RealVal(0) if ty == "real" else IntVal(0)
    terms, some = [], []
    for c, v in members:
        cc = band(c, bnot(v.null))
        val = num(v)
        if ty == "real":
            val = real_of(val)
        terms.append(ite(cc, val, zero))
        some.append(cc)
    return V(bnot(bor(*some)), Sum(terms) if len(terms) > 1 else terms[0], ty)


def agg_minmax(members, want_max):
    r = _agg_minmax(members, want_max)
    r.unk = _agg_unk(members)
    return r


def _agg_minmax(members, want_max):
    acc = None
    for c, v in members:
        v = as_num(v)
        cc = band(c, bnot(v.null))
        if acc is None:
            acc = V(bnot(cc), v.val, v.ty)
        else:
            if acc.ty != v.ty:
                acc = V(acc.null, real_of(acc.val), "real")
                v = V(v.null, real_of(v.val), "real")
            better = (v.val > acc.val) if want_max else (v.val < acc.val)
            take = band(cc, bor(acc.null, better))
            acc = V(band(acc.null, bnot(cc)), ite(take, v.val, acc.val), acc.ty)
    return acc if acc is not None else vnull("int")


def agg_avg(members):
    s = agg_sum(members)
    n = agg_count_nonnull(members)
    return V(s.null, real_of(s.val) / real_of(ite(n.val == 0, IntVal(1), n.val)), "real", s.unk)


def lex_before(ka, kb, descs):
    """ka sorts strictly before kb; keys are lists of V. On the reference side keys are non-null by precondition; on the SQL
    side a NULL key can still occur (a row the reference does not have): NULL is the smallest value, as in SQLite (first in
    ASC, last in DESC) - the engine every model is replayed on."""
    res = F
    for a, b, d in reversed(list(zip(ka, kb, descs))):
        x, y = unify(a, b)
        both = band(bnot(a.null), bnot(b.null))
        if d:
            lt = bor(band(both, x > y), band(bnot(a.null), b.null))
        else:
            lt = bor(band(both, x < y), band(a.null, bnot(b.null)))
        eq = bor(band(a.null, b.null), band(both, x == y))
        res = bor(lt, band(eq, res))
    return res


def ranks(rows_present, keys, descs, same_part=None):
    """rank_i = number of present rows (of the same partition) sorting strictly before row i.
    keys: per row list of V; same_part(i,j) -> Bool or None"""
    n = len(rows_present)
    out = []
    for i in range(n):
        cs = []
        for j in range(n):
            if i == j:
                continue
            c = band(rows_present[j], lex_before(keys[j], keys[i], descs))
            if same_part is not None:
                c = band(c, same_part(i, j))
            cs.append(c)
        out.append(count_if(cs))
    return out


def bag_equal(rows_a, rows_b):
    """multiset equality of present rows (cells compared with `same`)"""
    conj = []
    na = count_if([r.present for r in rows_a])
    nb = count_if([r.present for r in rows_b])
    conj.append(na == nb)
    for r in rows_a:
        ca = count_if([band(s.present, same_row(r.cells, s.cells)) for s in rows_a])
        cb = count_if([band(s.present, same_row(r.cells, s.cells)) for s in rows_b])
        conj.append(bor(bnot(r.present), ca == cb))
    return band(*conj)
