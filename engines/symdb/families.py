"""Bounded program families (abstract programs; printed to PRQL and interpreted by the reference).
Enumeration is exhaustive over the stated alphabet up to the stated length; VERIF_SEED only rotates
which slice of the longest length the quick tier visits."""
import itertools
import random

from prql import *  # noqa
import prql as P
from symdb import ConcDB, SCHEMA


class Frame:
    """frame of a pipeline prefix, computed by the reference itself on an empty instance"""

    def __init__(self, pipeline, lets=None, schema=None):
        lets = CFG.get("lets", ()) if lets is None else lets
        self.schema = schema or SCHEMA
        db = ConcDB(self.schema, {})
        prog = Prog(pipeline, lets=lets)
        rv = P.Ref(db, prog, P.Pre()).run()
        self.cols = rv.cols
        self.ordered = rv.order is not None
        self.names = []
        rels = {c.rel for c in self.cols if c.rel}
        for c in self.cols:
            dup = sum(1 for x in self.cols if x.name == c.name) > 1
            if c.rel and (dup or len(rels) > 1):
                same = sum(1 for x in self.cols if x.name == c.name and x.rel == c.rel)
                self.names.append(f"{c.rel}.{c.name}" if same == 1 else None)
            elif not dup:
                self.names.append(c.name)
            else:
                self.names.append(None)

    def ints(self):
        return [n for n, c in zip(self.names, self.cols) if n and not c.name.startswith("p_")]

    def all_ref(self):
        return all(self.names)


class Skip(Exception):
    pass


def need(c):
    if not c:
        raise Skip()


_ctr = [0]


def fresh(p):
    _ctr[0] += 1
    return f"{p}{_ctr[0]}"


# ---------------------------------------------------------------- transform templates
# each: Frame -> list of Tr (appended to the pipeline)

def t_derive_add(f):
    i = f.ints(); need(i)
    return [Derive(**{fresh("x"): C(i[0]) + 1})]


def t_derive_shadow(f):
    """a derived column that takes the name of an existing column"""
    i = [n for n in f.ints() if "." not in n]; need(len(i) >= 2)
    return [Derive(**{i[0]: C(i[1]) + 1})]


def t_derive_mix(f):
    i = f.ints(); need(len(i) >= 2)
    return [Derive(**{fresh("y"): C(i[0]) * 2 - C(i[1])})]


def t_filter_gt(f):
    i = f.ints(); need(i)
    return [Filter(C(i[0]) > 0)]


def t_filter_last(f):
    i = f.ints(); need(i)
    return [Filter(C(i[-1]) >= 1)]


def t_filter_null(f):
    i = f.ints(); need(len(i) >= 2)
    return [Filter(C(i[1]) != None)]  # noqa: E711


def t_sort_asc(f):
    i = f.ints(); need(i)
    return [Sort((False, C(i[0])))]


def t_sort_desc2(f):
    i = f.ints(); need(len(i) >= 2)
    return [Sort((True, C(i[1])), (False, C(i[0])))]


def t_sort_last_desc(f):
    i = f.ints(); need(i)
    return [Sort((True, C(i[-1])))]


def t_take_n(f):
    need(f.ordered)
    return [Take(1)]


def t_take_2(f):
    need(f.ordered)
    return [Take(2)]


def t_take_range(f):
    need(f.ordered)
    return [Take(2, 3)]


def t_take_open(f):
    need(f.ordered)
    return [Take(2, None)]


def t_select_2(f):
    i = f.ints(); need(len(i) >= 2)
    return [Select(i[0], i[1])]


def t_select_comp(f):
    i = f.ints(); need(len(i) >= 2)
    return [Select(i[1], **{fresh("s"): C(i[0]) + C(i[1])})]


def t_select_first(f):
    i = f.ints(); need(len(i) >= 2)
    return [Select(i[0])]


def t_select_last(f):
    i = f.ints(); need(len(i) >= 2)
    return [Select(i[-1])]


def t_agg(f):
    i = f.ints(); need(i)
    return [Aggregate(**{fresh("s"): Fn("sum", C(i[0])), fresh("n"): Fn("count", C(i[0]))})]


def t_agg_minmax(f):
    i = f.ints(); need(len(i) >= 2)
    return [Aggregate(**{fresh("m"): Fn("min", C(i[1])), fresh("x"): Fn("max", C(i[1])), fresh("v"): Fn("average", C(i[0]))})]


def t_group_agg(f):
    i = f.ints(); need(len(i) >= 2)
    return [Group([C(i[0])], Aggregate(**{fresh("s"): Fn("sum", C(i[1])), fresh("n"): Fn("count", C(i[1]))}))]


def t_group_take(f):
    i = f.ints(); need(len(i) >= 2)
    return [Group([C(i[0])], Sort((False, C(i[1]))), Take(1))]


def t_group_rownum(f):
    i = f.ints(); need(len(i) >= 2)
    return [Group([C(i[0])], Sort((True, C(i[1]))), Derive(**{fresh("r"): Fn("row_number", C("this"))}))]


def t_win_sum(f):
    i = f.ints(); need(len(i) >= 2)
    return [Derive(**{fresh("w"): Fn("sum", C(i[1]))})]


def t_rownum(f):
    need(f.ordered)
    return [Derive(**{fresh("rn"): Fn("row_number", C("this"))})]


def t_join_inner(f, side="inner"):
    need(sum(1 for c in f.cols if c.name == "a") == 1)
    need(all(c.rel != CFG["u"] for c in f.cols))
    return [Join(CFG["u"], "==a", side=side)]


def t_join_cond(f):
    """join on an expression (this./that.) instead of the ==col shorthand"""
    need(sum(1 for c in f.cols if c.name == "a") == 1)
    need(all(c.rel != CFG["u"] for c in f.cols))
    i = [n for n in f.ints() if "." not in n]
    need("a" in i and len(i) >= 2)
    other = [n for n in i if n != "a"][0]
    ucol = [c for c in CFG["ucols"] if c != "a"][0]
    return [Join(CFG["u"], (C("this.a") == C("that.a")) & (C("this." + other) >= C("that." + ucol)), side="inner")]


def t_sort_expr(f):
    """sort on an expression that is not a column of the frame, descending"""
    i = f.ints(); need(len(i) >= 2)
    return [Sort((True, C(i[0]) + C(i[1])), (False, C(i[0])))]


def t_join_left(f):
    return t_join_inner(f, "left")


def t_distinct(f):
    need(f.all_ref() and 1 <= len(f.cols) <= 3)
    return [Group([C(n) for n in f.names], Take(1))]


def t_take_all(f):
    return [Take(1, None)]


def t_group_take_all(f):
    need(f.all_ref() and 1 <= len(f.cols) <= 3)
    return [Group([C(n) for n in f.names], Take(1, None))]


def t_group_take_open(f):
    i = f.ints(); need(len(i) >= 2)
    return [Group([C(i[0])], Take(1, None))]


def t_append(f):
    need(len(f.cols) == 2)
    return [Append([From(CFG["u"]), Select(*CFG["ucols"])])]


def t_derive_case(f):
    i = f.ints(); need(len(i) >= 2)
    return [Derive(**{fresh("k"): Case((C(i[0]) > 0, C(i[1])), (True, 0))})]


def t_filter_in(f):
    i = f.ints(); need(i)
    return [Filter(In(C(i[0]), 0, 5))]


def t_filter_or_null(f):
    i = f.ints(); need(len(i) >= 2)
    return [Filter((C(i[0]) == None) | (C(i[1]) > 0))]  # noqa: E711


def t_derive_coalesce(f):
    i = f.ints(); need(len(i) >= 2)
    return [Derive(**{fresh("n"): C(i[1]).coalesce(0) + 1})]


def t_group2_agg(f):
    i = f.ints(); need(len(i) >= 3)
    return [Group([C(i[0]), C(i[1])], Aggregate(**{fresh("n"): Fn("count", C(i[2])), fresh("m"): Fn("max", C(i[2]))}))]


def t_join_v(f):
    need(sum(1 for c in f.cols if c.name == "a") == 1)
    need(all(c.rel != "v" for c in f.cols) and CFG["t"] == "t")
    return [Join("v", "==a")]


def t_join_right(f):
    return t_join_inner(f, "right")


def t_join_full(f):
    return t_join_inner(f, "full")


def t_group_win_sum(f):
    i = f.ints(); need(len(i) >= 2)
    return [Group([C(i[0])], Derive(**{fresh("g"): Fn("sum", C(i[1])), fresh("c"): Fn("count", C(i[1]))}))]


def t_win_lag(f):
    i = f.ints(); need(f.ordered and len(i) >= 2)
    return [Derive(**{fresh("l"): Fn("lag", 1, C(i[1]))})]


def t_win_expanding(f):
    i = f.ints(); need(f.ordered and len(i) >= 2)
    return [Window(Derive(**{fresh("cum"): Fn("sum", C(i[1]))}), expanding=True)]


def t_agg_expr(f):
    """aggregate whose value is an expression over aggregate functions"""
    i = f.ints(); need(len(i) >= 2)
    return [Aggregate(**{fresh("s"): Fn("sum", C(i[1])) + 1, fresh("m"): Fn("max", C(i[0])) - Fn("min", C(i[1]))})]


def t_group_agg_expr(f):
    i = f.ints(); need(len(i) >= 2)
    return [Group([C(i[0])], Aggregate(**{fresh("s"): Fn("sum", C(i[1])) + 1}))]


def t_group_const(f):
    """group by a computed constant column (an integer literal must not turn into a positional reference)"""
    i = f.ints(); need(i)
    k = fresh("k")
    return [Derive(**{k: L(2)}), Group([C(k)], Aggregate(**{fresh("s"): Fn("sum", C(i[0]))}))]


ALPHABET = {
    "join_cond": t_join_cond, "sort_expr": t_sort_expr,
    "agg_expr": t_agg_expr, "group_agg_expr": t_group_agg_expr, "group_const": t_group_const,
    "derive_case": t_derive_case, "filter_in": t_filter_in, "filter_or_null": t_filter_or_null, "derive_coalesce": t_derive_coalesce,
    "group2_agg": t_group2_agg, "join_v": t_join_v, "join_right": t_join_right, "join_full": t_join_full, "group_win_sum": t_group_win_sum,
    "win_lag": t_win_lag, "win_expanding": t_win_expanding, "take_all": t_take_all, "group_take_all": t_group_take_all,
    "group_take_open": t_group_take_open,
    "derive_add": t_derive_add, "derive_mix": t_derive_mix,
    "filter_gt": t_filter_gt, "filter_last": t_filter_last, "filter_null": t_filter_null,
    "sort_asc": t_sort_asc, "sort_desc2": t_sort_desc2, "sort_last_desc": t_sort_last_desc,
    "take_n": t_take_n, "take_2": t_take_2, "take_range": t_take_range, "take_open": t_take_open,
    "select_2": t_select_2, "select_comp": t_select_comp, "select_last": t_select_last, "select_first": t_select_first,
    "agg": t_agg, "agg_minmax": t_agg_minmax, "group_agg": t_group_agg, "group_take": t_group_take,
    "group_rownum": t_group_rownum, "win_sum": t_win_sum, "rownum": t_rownum,
    "join_inner": t_join_inner, "join_left": t_join_left, "distinct": t_distinct, "append": t_append,
}

CFG = {"t": "t", "u": "u", "cols": ("a", "b", "c"), "ucols": ("a", "b"), "schema": None}

HEADS = {
    # (all values distinct and non-null: a literal instance is fixed, so ties/NULLs in it would make every
    #  positional precondition unsatisfiable; NULLs and duplicates are covered by the symbolic base tables)
    "lit": lambda: [FromLit([{"a": 1, "b": 2, "c": 3}, {"a": 4, "b": -1, "c": 0}, {"a": -2, "b": 5, "c": 7}])],
    "wild": lambda: [From(CFG["t"])],
    "sel": lambda: [From(CFG["t"]), Select(*CFG["cols"])],
    # table alias: references through the alias, `FROM t AS e`
    "alias": lambda: [From(CFG["t"], alias="e"), Select(*["e." + c for c in CFG["cols"]])],
    "alias_wild": lambda: [From(CFG["t"], alias="e")],
}


def t_join_self_agg(f):
    """join with a second reference to the same let-bound relation (aggregated), on the first column"""
    x = CFG.get("self")
    need(x and sum(1 for c in f.cols if c.name == "a") == 1 and all(c.rel != "y" for c in f.cols))
    return [Join([From(x), Group(["a"], Aggregate(m=Fn("max", C("b"))))], "==a", side="left", alias="y")]


def t_join_self(f):
    x = CFG.get("self")
    need(x and sum(1 for c in f.cols if c.name == "a") == 1 and all(c.rel != "y" for c in f.cols))
    return [Join(x, "==a", alias="y")]


ALPHABET_LET = dict(ALPHABET, join_self_agg=t_join_self_agg, join_self=t_join_self)

LETS = {
    "sorted": [From("t"), Select("a", "b", "c"), Sort("a")],
    "sorted_take": [From("t"), Select("a", "b", "c"), Sort("-b"), Take(3)],
    "filtered_sorted": [From("t"), Select("a", "b", "c"), Filter(C("a") > 0), Sort("c")],
    "computed_sorted": [From("t"), Select("a", "b"), Derive(k=C("a") + C("b")), Sort("-k"), Select("a", "b", "k")],
    "plain": [From("t"), Select("a", "b", "c"), Filter(C("b") != None)],  # noqa: E711
}


def enumerate_let_family(max_len, let_names=None, only_names=None):
    """programs `let x = (...)  from x | <templates>`: the let-bound relation may carry a sort and may be
    referenced a second time from a join"""
    global CFG
    names = sorted(only_names or ALPHABET_LET)
    old = dict(CFG)
    try:
        for ln in (let_names or sorted(LETS)):
            CFG.update({"t": "x", "self": "x", "lets": [("x", LETS[ln])]})
            for L in range(0, max_len + 1):
                for seq in itertools.product(names, repeat=L):
                    # positional window functions that would have to take their order from the let-bound
                    # relation's own sort are left out (not documented whether that sort orders them)
                    first_sort = min([i for i, s_ in enumerate(seq) if s_.startswith("sort")] or [99])
                    if any(s_ in ("rownum", "win_lag", "win_expanding") and i < first_sort for i, s_ in enumerate(seq)):
                        continue
                    pipe = build("wild", seq, ALPHABET_LET)
                    if pipe is None:
                        continue
                    yield (f"let_{ln}:" + ">".join(seq), Prog(pipe, lets=[("x", LETS[ln])]))
    finally:
        CFG.clear()
        CFG.update(old)


def build(head, names, alphabet=ALPHABET):
    """instantiate a sequence of template names; None if some template does not apply"""
    _ctr[0] = 0
    pipe = HEADS[head]()
    for nm in names:
        try:
            f = Frame(pipe, schema=CFG["schema"])
            pipe = pipe + alphabet[nm](f)
        except Skip:
            return None
    return pipe


def enumerate_family(max_len, heads=("sel", "wild"), alphabet=ALPHABET, only_names=None):
    """yield (tag, Prog) for all applicable sequences up to max_len"""
    names = sorted(only_names or alphabet)
    for head in heads:
        for L in range(0, max_len + 1):
            for seq in itertools.product(names, repeat=L):
                pipe = build(head, seq, alphabet)
                if pipe is None:
                    continue
                yield (head + ":" + ">".join(seq), Prog(pipe))


def targeted_let_family():
    """sorted let-bound relation, then the main pipeline sorts differently, takes and groups"""
    sorts = ["sort_desc2", "sort_last_desc", "sort_asc"]
    takes = ["take_n", "take_range", "take_open"]
    groups = ["group_agg", "group_take", "agg", "distinct"]
    out = []
    for tag, prog in enumerate_let_family(3, only_names=sorts + takes + groups):
        seq = tag.split(":", 1)[1].split(">")
        if len(seq) == 3 and seq[0] in sorts and seq[1] in takes and seq[2] in groups:
            out.append((tag, prog))
    return out


def targeted_distinct_family():
    """distinct (group {all columns} (take 1)) followed by a join / aggregate / filter and a projection of the distinct columns"""
    out = []
    for head in ("sel",):
        for j in ("join_inner", "join_left", "join_right", "join_full", "join_v"):
            for proj in ("select_2", "select_last", None):
                seq = ("select_2", "distinct", j) + ((proj,) if proj else ())
                pipe = build(head, seq)
                if pipe is not None:
                    out.append((f"{head}:" + ">".join(seq), Prog(pipe)))
                seq = ("distinct", j) + ((proj,) if proj else ())
                pipe = build(head, seq)
                if pipe is not None:
                    out.append((f"{head}:" + ">".join(seq), Prog(pipe)))
        for after in ("agg", "group_agg", "filter_gt", "derive_add", "win_sum", "sort_asc", "append"):
            pipe = build(head, ("select_2", "distinct", after))
            if pipe is not None:
                out.append((f"{head}:select_2>distinct>{after}", Prog(pipe)))
    return out


def targeted_group_take_family():
    """first row per group (sorted take 1 inside group), a transform that reads a non-key column of the chosen row,
    then a projection of exactly the group keys"""
    out = []
    for mid in ("filter_last", "filter_null", "sort_last_desc", "sort_desc2", "derive_mix", None):
        for proj in ("select_first", "select_2", None):
            seq = ("group_take",) + ((mid,) if mid else ()) + ((proj,) if proj else ())
            pipe = build("sel", seq)
            if pipe is not None:
                out.append(("sel:" + ">".join(seq), Prog(pipe)))
            seq2 = ("group_take", mid, "take_n", proj) if mid and mid.startswith("sort") and proj else None
            if seq2:
                pipe = build("sel", seq2)
                if pipe is not None:
                    out.append(("sel:" + ">".join(seq2), Prog(pipe)))
    return out


def targeted_takes_family():
    """consecutive takes (merged into one LIMIT/OFFSET when they share a SELECT), with and without a row-preserving transform between"""
    out = []
    for s_ in ("sort_asc", "sort_desc2"):
        for tk1 in ("take_open", "take_range", "take_n", "take_2"):
            for mid in (None, "derive_add", "select_2", "filter_gt"):
                for tk2 in ("take_n", "take_range", "take_open"):
                    seq = (s_, tk1) + ((mid,) if mid else ()) + (tk2,)
                    pipe = build("sel", seq)
                    if pipe is not None:
                        out.append(("sel:" + ">".join(seq), Prog(pipe)))
    return out


def targeted_setop_family():
    """the shapes the EXCEPT / INTERSECT recognisers look at: a join over ALL columns of two narrow relations, with and without
    a preceding or following distinct, followed by the canonical null test, by other filters, or by nothing, then a projection
    of the left columns"""
    out = []
    tn, un = CFG["t"], CFG["u"]
    for width in (1, 2):
        cols = ["a", "b"][:width]
        right = [From(un), Select(*cols)]
        on = C("this.a") == C("that.a")
        if width == 2:
            on = on & (C("this.b") == C("that.b"))
        lcols = [f"{tn}.{c}" for c in cols]
        filters = {"none": [], "null-test": [Filter(C("w." + cols[-1]) == None)],  # noqa: E711
                   "null-test-first": [Filter(C("w.a") == None)],  # noqa: E711
                   "not-null": [Filter(C("w.a") != None)],  # noqa: E711
                   "left-col": [Filter(C(f"{tn}.a") > 0)], "left-col-or-null": [Filter((C(f"{tn}.a") > 0) | (C("w.a") == None))],  # noqa: E711
                   "null-test-and-left-col": [Filter((C("w." + cols[-1]) == None) & (C(f"{tn}.a") > 0))],  # noqa: E711
                   "null-tests-all-and-left-col": [Filter(E("bin", "&&", E("bin", "&&", C("w.a") == None, C("w." + cols[-1]) == None), C(f"{tn}.a") > 0))]}  # noqa: E711
        for side in ("left", "inner"):
            for dist in ("", "before", "after"):
                for fname, flt in filters.items():
                    if side == "inner" and fname not in ("none", "left-col"):
                        continue
                    pipe = [From(tn), Select(*cols)]
                    if dist == "before":
                        pipe.append(Group([C(c) for c in cols], Take(1)))
                    pipe.append(Join(right, on, side=side, alias="w"))
                    pipe += flt
                    pipe.append(Select(*lcols))
                    if dist == "after":
                        pipe.append(Group([C(c) for c in lcols], Take(1)))
                    out.append((f"setop:{width}:{side}:{dist or 'plain'}:{fname}", Prog(pipe)))
                    if dist and fname in ("none", "null-test"):
                        # a sort (and a sort + take) after the recognised set operation
                        key = lcols[0] if dist != "after" else lcols[0]
                        out.append((f"setop:{width}:{side}:{dist}:{fname}:sort", Prog(pipe + [Sort("-" + key)])))
                        out.append((f"setop:{width}:{side}:{dist}:{fname}:sort-take", Prog(pipe + [Sort(key), Take(1)])))
        # append next to a distinct: the UNION recogniser (distinct after -> UNION DISTINCT; distinct before must stay on the top only)
        bottom = [From(un), Select(*cols)]
        D = lambda: Group([C(c) for c in cols], Take(1))
        out += [
            (f"setop:{width}:append:distinct-after", Prog([From(tn), Select(*cols), Append(bottom), D()])),
            (f"setop:{width}:append:distinct-before", Prog([From(tn), Select(*cols), D(), Append(bottom)])),
            (f"setop:{width}:append:distinct-both", Prog([From(tn), Select(*cols), D(), Append(bottom), D()])),
            (f"setop:{width}:append:distinct-after-filter", Prog([From(tn), Select(*cols), Append(bottom), D(), Filter(C("a") > 0)])),
            (f"setop:{width}:append:filter-distinct", Prog([From(tn), Select(*cols), Append(bottom), Filter(C("a") > 0), D()])),
            (f"setop:{width}:append:distinct-bottom", Prog([From(tn), Select(*cols), Append(bottom + [D()])])),
            (f"setop:{width}:append:append-distinct", Prog([From(tn), Select(*cols), Append(bottom), Append([From(tn), Select(*cols)]), D()])),
        ]
    return out


def targeted_shadow_family():
    """name shadowing: a derived column that takes the name of an existing column (which stays in the frame, unnamed), on
    relations of known columns, followed by every kind of transform"""
    out = []
    for before in ((), ("filter_gt",), ("sort_asc",), ("sort_desc2",), ("group_take",), ("take_n",), ("join_inner",)):
        for after in ((), ("filter_gt",), ("sort_asc",), ("select_2",), ("take_n",), ("group_agg",), ("agg",), ("derive_add",), ("join_left",), ("win_sum",)):
            seq = before + ("derive_shadow",) + after
            if before == ("take_n",):
                seq = ("sort_asc",) + seq
            pipe = build("sel", seq, dict(ALPHABET, derive_shadow=t_derive_shadow))
            if pipe is not None:
                out.append(("sel:" + ">".join(seq), Prog(pipe)))
    return out


def targeted_append_family():
    """append next to derive chains and projections that permute / subset the columns afterwards (positional mapping of the bottom relation)"""
    a, b = C("a"), C("b")
    bottom = lambda: Append([From(CFG["u"]), Select("a", "b")])
    progs = [
        ("append:permute-after", [From(CFG["t"]), Select("a", "b"), bottom(), Select("b", "a")]),
        ("append:subset-after", [From(CFG["t"]), Select("a", "b"), bottom(), Select("b")]),
        ("append:derive-chain", [From(CFG["t"]), Select("a", "b"), Derive(z=a + b), Derive(w=C("z") * 2), Select("b", "w"), bottom()]),
        ("append:derive-chain-permute", [From(CFG["t"]), Select("a", "b"), Derive(z=a + b), Derive(w=C("z") * 2), Select("b", "w"), bottom(), Select("w", "b")]),
        ("append:derive-chain-subset", [From(CFG["t"]), Select("a", "b"), Derive(z=a + b), Derive(w=C("z") * 2), Select("b", "w"), bottom(), Select("w")]),
        ("append:derive-permute-filter", [From(CFG["t"]), Select("a", "b"), Derive(z=a + b), Select("z", "a"), bottom(), Select("a", "z"), Filter(C("z") > 0)]),
        ("append:derive-chain-agg", [From(CFG["t"]), Select("a", "b"), Derive(z=a + b), Derive(w=C("z") * 2), Select("b", "w"), bottom(),
                                     Aggregate(s=Fn("sum", C("w")), n=Fn("count", C("b")))]),
        ("append:twice-permute", [From(CFG["t"]), Select("a", "b"), bottom(), bottom(), Select("b", "a")]),
    ]
    return [(tg, Prog(p)) for tg, p in progs]


def targeted_outer_join_family():
    """a column derived on the left input whose expression is not NULL on an all-NULL row (coalesce, case, constant), then an outer
    join, then a consumer of that column: the column must be computed BEFORE the join (unmatched right rows see NULL, not the
    expression's value on NULLs)"""
    tn, un = CFG["t"], CFG["u"]
    b = C("b")
    derives = {"coalesce": b.coalesce(1), "case": Case((b > 0, 1), (True, 2)), "const": L(5), "coalesce-sum": b.coalesce(0) + 1}
    out = []
    for dn, de in derives.items():
        for side in ("full", "right", "left"):
            head = [From(tn), Select("a", "b"), Derive(q=de), Join(un, "==a", side=side)]
            out += [
                (f"outer:{dn}:{side}:agg", Prog(head + [Aggregate(s=Fn("sum", C("q")), n=Fn("count", C("q")))])),
                (f"outer:{dn}:{side}:group", Prog(head + [Group([C(f"{un}.a")], Aggregate(s=Fn("sum", C("q"))))])),
                (f"outer:{dn}:{side}:select", Prog(head + [Select("q", f"{un}.b")])),
                (f"outer:{dn}:{side}:filter", Prog(head + [Filter(C("q") > 0), Select("q", f"{un}.a")])),
                (f"outer:{dn}:{side}:plain", Prog(head)),
            ]
    return out


def targeted_literal_family():
    """relation literals whose rows spell their fields in different orders (a tuple's fields are named, not positional), alone and under
    the transforms that read columns by name"""
    out = []
    two = [{"a": 1, "b": 2}, {"b": 3, "a": 4}]
    three = [{"a": 1, "b": 2, "c": 3}, {"c": 0, "a": 4, "b": -1}, {"b": 5, "c": 7, "a": -2}]
    out.append(("lit-perm:2", Prog([FromLit(two)])))
    out.append(("lit-perm:3", Prog([FromLit(three)])))
    out.append(("lit-perm:3>select", Prog([FromLit(three), Select("b", "a")])))
    out.append(("lit-perm:3>filter", Prog([FromLit(three), Filter(C("a") > 0), Select("c")])))
    out.append(("lit-perm:2>join", Prog([FromLit(two), Join("u", "==a"), Select("b", "u.b")])))
    out.append(("lit-perm:3>agg", Prog([FromLit(three), Aggregate(s=Fn("sum", C("b")))])))
    return out


def family_c01(tier, seed):
    """quick: all pipelines of <=2 templates on both heads + a seed-rotated slice of length 3;
    thorough: all of length <=3 on the explicit-column head, <=2 on the wildcard head, plus a slice of length 4"""
    out = []
    # (positional window functions directly on a let-bound relation are left out: whether the relation's own
    #  sort also orders `row_number` there is not documented)
    out += list(enumerate_let_family(1))
    letn = ["sort_desc2", "sort_last_desc", "take_n", "take_range", "filter_gt", "group_agg", "group_take", "join_self_agg", "join_self",
            "join_left", "select_2", "derive_add", "agg"]
    l2 = list(enumerate_let_family(2, only_names=letn))
    l3 = list(enumerate_let_family(3, let_names=["sorted", "sorted_take"], only_names=["sort_desc2", "take_n", "group_agg", "group_take", "filter_gt", "join_self_agg"]))
    if tier == "quick":
        rr = random.Random(seed + 1)
        rr.shuffle(l2)
        rr.shuffle(l3)
        l2, l3 = l2[:300], l3[:150]
    out += l2 + l3 + targeted_let_family() + targeted_distinct_family() + targeted_group_take_family() + targeted_takes_family() + targeted_setop_family() + targeted_shadow_family() + targeted_append_family() + targeted_outer_join_family() + targeted_literal_family()
    out += list(enumerate_family(1 if tier == "quick" else 2, heads=("lit",)))
    out += list(enumerate_family(1 if tier == "quick" else 2, heads=("alias", "alias_wild")))
    if tier == "quick":
        out += list(enumerate_family(2))
        rnd = random.Random(seed)
        names = sorted(ALPHABET)
        seen = set()
        tries = 0
        while len(seen) < 250 and tries < 5000:
            tries += 1
            seq = tuple(rnd.choice(names) for _ in range(3))
            if seq in seen:
                continue
            pipe = build("sel", seq)
            if pipe is None:
                continue
            seen.add(seq)
            out.append(("sel:" + ">".join(seq), Prog(pipe)))
    else:
        out += list(enumerate_family(3, heads=("sel",)))
        out += list(enumerate_family(2, heads=("wild",)))
        rnd = random.Random(seed)
        names = sorted(ALPHABET)
        seen = set()
        tries = 0
        while len(seen) < 3000 and tries < 100000:
            tries += 1
            seq = tuple(rnd.choice(names) for _ in range(4))
            if seq in seen:
                continue
            pipe = build("sel", seq)
            if pipe is None:
                continue
            seen.add(seq)
            out.append(("sel:" + ">".join(seq), Prog(pipe)))
    return out


# ---------------------------------------------------------------- C02: expression family
NUM_OPS = ["*", "/", "//", "%", "+", "-", "**"]
CMP_OPS = ["==", "!=", ">", "<", ">=", "<="]
LOG_OPS = ["&&", "||"]
C02_SCHEMA = {"t": ["a", "b", "c", "d", "p", "q", "r"]}


def res_type(op):
    return "num" if op in NUM_OPS or op == "??" else "bool"        # "??b": coalesce of boolean operands


def arg_types(op):
    """admissible operand type pairs"""
    if op in NUM_OPS or op in (">", "<", ">=", "<="):
        return [("num", "num")]
    if op in ("==", "!="):
        return [("num", "num"), ("bool", "bool")]
    if op in LOG_OPS:
        return [("bool", "bool")]
    if op == "??":
        return [("num", "num")]
    if op == "??b":
        return [("bool", "bool")]
    raise ValueError(op)


ALL_BIN = [o for o in NUM_OPS if o != "//"] + CMP_OPS + ["??", "??b"] + LOG_OPS     # `//`: see trees_div_i


class Leaves:
    def __init__(self):
        self.n = iter("abcd")
        self.b = iter("pqr")

    def get(self, ty):
        return C(next(self.n if ty == "num" else self.b))


def mk(op, l, r):
    return E("bin", "??" if op == "??b" else op, l, r)


def trees_pairs():
    """every (parent, child, side) triple whose types fit"""
    for P_ in ALL_BIN:
        for (lt, rt) in arg_types(P_):
            for side, want in (("L", lt), ("R", rt)):
                for Ch in ALL_BIN:
                    if res_type(Ch) != want:
                        continue
                    if P_ in ("%", "//") and Ch in ("/", "**"):
                        continue   # modulo / integer division of a real: not defined for the int-only data domain
                    for (clt, crt) in arg_types(Ch):
                        lv = Leaves()
                        try:
                            child = mk(Ch, lv.get(clt), lv.get(crt))
                            other = lv.get(rt if side == "L" else lt)
                        except StopIteration:
                            continue
                        e = mk(P_, child, other) if side == "L" else mk(P_, other, child)
                        yield (f"pair:{P_}:{Ch}:{side}", e, {f"op{P_}", f"op{Ch}", f"pair:{P_}>{Ch}:{side}"})


def trees_depth3(gops=("+", "*", "-")):
    """parent(x, child(g1(..), g2(..))) and mirrored: both grandchildren compound (numeric grandchildren only)"""
    for P_ in ALL_BIN:
        for (lt, rt) in arg_types(P_):
            for side, want in (("L", lt), ("R", rt)):
                for Ch in [o for o in NUM_OPS if o != "//"] + CMP_OPS + ["??"]:
                    if res_type(Ch) != want or ("num", "num") not in arg_types(Ch):
                        continue
                    if P_ in ("%", "//") and Ch in ("/", "**"):
                        continue
                    for g1 in gops:
                        for g2 in gops:
                            x = iter("abcd")
                            gl = mk(g1, C(next(x)), C(next(x)))
                            gr = mk(g2, C(next(x)), C(next(x)))
                            child = mk(Ch, gl, gr)
                            other = C("a") if (rt if side == "L" else lt) == "num" else C("p")
                            e = mk(P_, child, other) if side == "L" else mk(P_, other, child)
                            yield (f"d3:{P_}:{Ch}:{g1}{g2}:{side}", e, {f"op{P_}", f"op{Ch}", f"op{g1}", f"op{g2}", "depth3"})


def trees_unary():
    for U in ("-", "+", "!"):
        uty = "bool" if U == "!" else "num"
        # unary over binary
        for Ch in ALL_BIN:
            if res_type(Ch) != uty:
                continue
            for (clt, crt) in arg_types(Ch)[:1]:
                lv = Leaves()
                e = E("un", U, mk(Ch, lv.get(clt), lv.get(crt)))
                yield (f"un:{U}:{Ch}", e, {f"un{U}", f"op{Ch}"})
        # unary as operand of binary, both sides; and unary of unary
        for P_ in ALL_BIN:
            for (lt, rt) in arg_types(P_):
                for side, want in (("L", lt), ("R", rt)):
                    if want != uty:
                        continue
                    lv = Leaves()
                    u = E("un", U, lv.get(uty))
                    other = lv.get(rt if side == "L" else lt)
                    e = mk(P_, u, other) if side == "L" else mk(P_, other, u)
                    yield (f"binun:{P_}:{U}:{side}", e, {f"un{U}", f"op{P_}"})
        for U2 in ("-", "+", "!"):
            if ("bool" if U2 == "!" else "num") != uty:
                continue
            yield (f"unun:{U}{U2}", E("un", U, E("un", U2, C("p" if uty == "bool" else "a"))), {f"un{U}", f"un{U2}", "unun"})


def trees_misc():
    a, b, c, d, p, q = (C(x) for x in "abcdpq")
    yield ("case1", Case((a > 1, b + 1), (a < 0, c)), {"case"})
    yield ("case2", Case((a > 1, b), (True, c)) + 1, {"case"})
    yield ("case3", 2 * Case((a == None, 0), (True, a)), {"case"})  # noqa: E711
    yield ("case4", Case((p, 1), (q, 2)) == 2, {"case"})
    yield ("in1", In(a, 1, 3), {"in"})
    yield ("in2", In(a + b, 1, None) & p, {"in"})
    yield ("in3", ~In(a, None, 5), {"in"})
    yield ("in4", In(a * 2, -3, 3) | q, {"in"})
    yield ("coal1", a.coalesce(b).coalesce(0), {"op??"})
    yield ("coal2", a.coalesce(b + 1) * 2, {"op??"})
    yield ("coal3", (a + 1).coalesce(b) > c, {"op??"})
    yield ("null1", a == None, {"null"})  # noqa: E711
    yield ("null2", (a + b) != None, {"null"})  # noqa: E711
    yield ("null3", E("bin", "==", E("null"), a), {"null"})
    yield ("null4", (a == None) | (b > 1), {"null"})  # noqa: E711
    yield ("null5", ~(a == None), {"null"})  # noqa: E711
    yield ("null6", a.coalesce(None), {"null"})
    # literal / null folding: every operator on literal operands and on a null operand
    for op in ALL_BIN:
        for (lt, rt) in arg_types(op):
            if lt == "num":
                yield (f"fold:{op}:lit", mk(op, L(7), L(2)), {"fold", f"op{op}"})
                yield (f"fold:{op}:neg", mk(op, L(-7), L(2)), {"fold", f"op{op}"})
                yield (f"fold:{op}:mixl", mk(op, mk(op, L(7), L(2)) if res_type(op) == "num" else L(3), C("a")), {"fold", f"op{op}"})
                if op not in ("==", "!="):
                    yield (f"fold:{op}:nullr", mk(op, C("a"), E("null")), {"fold", "null", f"op{op}"})
                    yield (f"fold:{op}:nulll", mk(op, E("null"), C("a")), {"fold", "null", f"op{op}"})
            else:
                for x in (True, False):
                    for y in (True, False):
                        yield (f"fold:{op}:{x}{y}", mk(op, E("bool", x), E("bool", y)), {"fold", f"op{op}"})
                    yield (f"fold:{op}:{x}col", mk(op, E("bool", x), C("p")), {"fold", f"op{op}"})
                    yield (f"fold:{op}:col{x}", mk(op, C("p"), E("bool", x)), {"fold", f"op{op}"})
    yield ("fold:eq-same", mk("==", L(7), L(7)), {"fold", "op=="})
    yield ("fold:ne-same", mk("!=", L(7), L(7)), {"fold", "op!="})
    yield ("fold:eq-neg", mk("==", L(-7), L(-7)) | mk("!=", L(0), L(-1)), {"fold", "op=="})
    yield ("fold:null-eq-null", mk("==", E("null"), E("null")), {"fold", "null"})
    yield ("fold:null-ne-null", mk("!=", E("null"), E("null")), {"fold", "null"})
    yield ("fold:null-coalesce-col", mk("??", E("null"), a), {"fold", "null", "op??"})
    yield ("fold:null-coalesce-lit", mk("??", E("null"), L(3)) + a, {"fold", "null", "op??"})
    yield ("fold:lit-coalesce-col", mk("??", L(3), a), {"fold", "op??"})
    yield ("fold:bool-eq", mk("==", E("bool", True), E("bool", True)) & mk("!=", E("bool", True), E("bool", False)), {"fold", "op=="})
    yield ("fold:not-not", E("un", "!", E("un", "!", E("bool", False))) | p, {"fold", "un!"})
    yield ("fold:neg-zero", E("un", "-", L(0)) + a, {"fold", "un-"})
    yield ("fold:nested", mk("&&", mk("==", L(1), L(1)), mk("||", E("bool", False), p)), {"fold"})
    yield ("fold:neglit", -L(5) + a, {"fold", "un-"})
    yield ("fold:negneg", E("un", "-", E("un", "-", L(5))), {"fold", "un-"})
    yield ("fold:notlit", E("un", "!", E("bool", True)) | p, {"fold", "un!"})
    yield ("fold:case_true", Case((True, a), (p, b)), {"fold", "case"})
    yield ("fold:case_false", Case((False, a), (True, b)), {"fold", "case"})
    yield ("fold:case_allfalse", Case((False, a)), {"fold", "case"})


def trees_nulltests():
    """`x == null` / `x != null` (either operand order) as an operand of every operator that takes a boolean, on both
    sides; of `!`; of a second null test; and with every kind of compound operand inside the test"""
    a, b, c, p, q = (C(x) for x in "abcpq")
    forms = {"isnull": lambda x: E("bin", "==", x, E("null")), "notnull": lambda x: E("bin", "!=", x, E("null")),
             "nullis": lambda x: E("bin", "==", E("null"), x), "nullnot": lambda x: E("bin", "!=", E("null"), x)}
    for fname, f in forms.items():
        for P_ in ("==", "!=", "&&", "||", "??b"):
            yield (f"nt:{fname}:{P_}:L", mk(P_, f(a), q), {"null", "nulltest", f"op{P_}"})
            yield (f"nt:{fname}:{P_}:R", mk(P_, q, f(a)), {"null", "nulltest", f"op{P_}"})
            for gname, g in forms.items():
                if (fname, gname) in (("isnull", "notnull"), ("notnull", "notnull"), ("notnull", "isnull"), ("nullnot", "notnull"), ("isnull", "isnull")):
                    yield (f"nt:{fname}:{P_}:{gname}", mk(P_, f(a), g(b)), {"null", "nulltest", f"op{P_}"})
        yield (f"nt:{fname}:not", E("un", "!", f(a)), {"null", "nulltest", "un!"})
        yield (f"nt:{fname}:of-test", forms["notnull"](f(a)), {"null", "nulltest"})
        yield (f"nt:{fname}:of-test2", forms["isnull"](f(a)), {"null", "nulltest"})
        # compound operands inside the test
        yield (f"nt:{fname}:sum", f(a + b), {"null", "nulltest", "op+"})
        yield (f"nt:{fname}:cmp", f(a > b), {"null", "nulltest", "op>"})
        yield (f"nt:{fname}:and", f(p & q), {"null", "nulltest", "op&&"})
        yield (f"nt:{fname}:or", f(p | q), {"null", "nulltest", "op||"})
        yield (f"nt:{fname}:neg", f(E("un", "-", a)), {"null", "nulltest", "un-"})
        yield (f"nt:{fname}:coalesce", f(a.coalesce(b)), {"null", "nulltest", "op??"})
        yield (f"nt:{fname}:eq", f(E("bin", "==", a, b)), {"null", "nulltest", "op=="})
        yield (f"nt:{fname}:case", f(Case((p, a), (q, b))), {"null", "nulltest", "case"})


def trees_div_i():
    """integer division is kept in a small designated sub-family: its sqlite template is a known finding
    (wrong for |l|<|r| on integers; claims strength 100 although its top level is a product), and nested
    uses make the non-linear queries slow.  Everything else about `//` is covered on the generic target."""
    a, b, c = C("a"), C("b"), C("c")
    q = E("bin", "//", a, b)
    yield ("divi:root", q, {"op//", "divi"})
    yield ("divi:lits", E("bin", "//", L(7), L(2)), {"op//", "divi"})
    yield ("divi:neglit", E("bin", "//", L(-7), L(2)), {"op//", "divi"})
    yield ("divi:+L", q + c, {"op//", "divi"})
    yield ("divi:-R", c - q, {"op//", "divi"})
    yield ("divi:*R", c * q, {"op//", "divi", "divi-nested"})
    yield ("divi:%R", c % q, {"op//", "divi", "divi-nested"})
    yield ("divi:neg", -q, {"op//", "divi", "divi-nested"})
    yield ("divi:cmp", q > c, {"op//", "divi"})
    yield ("divi:sumL", E("bin", "//", a + b, c), {"op//", "divi"})
    yield ("divi:sumR", E("bin", "//", c, a + b), {"op//", "divi"})
    yield ("divi:mulL", E("bin", "//", a * b, c), {"op//", "divi"})


def trees_chains():
    """four operands, every parenthesisation shape, operators of one precedence level (associativity within a level)"""
    a, b, c, d = (C(x) for x in "abcd")
    shapes = [
        ("((ab)c)d", lambda o1, o2, o3: mk(o3, mk(o2, mk(o1, a, b), c), d)),
        ("(a(bc))d", lambda o1, o2, o3: mk(o3, mk(o1, a, mk(o2, b, c)), d)),
        ("(ab)(cd)", lambda o1, o2, o3: mk(o2, mk(o1, a, b), mk(o3, c, d))),
        ("a((bc)d)", lambda o1, o2, o3: mk(o1, a, mk(o3, mk(o2, b, c), d))),
        ("a(b(cd))", lambda o1, o2, o3: mk(o1, a, mk(o2, b, mk(o3, c, d)))),
    ]
    levels = [["+", "-"], ["*", "/", "%"], ["**"], ["??"]]
    for ops in levels:
        for o1 in ops:
            for o2 in ops:
                for o3 in ops:
                    for sname, build_ in shapes:
                        e = build_(o1, o2, o3)
                        # modulo / integer division of a real operand is outside the int-only domain
                        bad = False

                        def walk(x, under_mod=False):
                            nonlocal bad
                            if x.k == "bin":
                                if under_mod and x.a[0] in ("/", "**"):
                                    bad = True
                                walk(x.a[1], x.a[0] == "%")
                                walk(x.a[2], x.a[0] == "%")
                        walk(e)
                        if bad:
                            continue
                        yield (f"chain:{o1}{o2}{o3}:{sname}", e, {f"op{o1}", f"op{o2}", f"op{o3}", "chain"})
    p, q, r = (C(x) for x in "pqr")
    for o1 in ("&&", "||"):
        for o2 in ("&&", "||"):
            yield (f"chain:{o1}{o2}:L", mk(o2, mk(o1, p, q), r), {"chain", f"op{o1}", f"op{o2}"})
            yield (f"chain:{o1}{o2}:R", mk(o1, p, mk(o2, q, r)), {"chain", f"op{o1}", f"op{o2}"})


def progs_negconst():
    """a column bound to a negative constant (which the compiler inlines as a literal) under unary operators and on both sides of
    every arithmetic / comparison operator: the emitted text must not run the signs together (`--` starts an SQL comment)"""
    a = C("a")
    out = []
    for k in (-3, -1):
        n = C("n")
        forms = [("neg", E("un", "-", n)), ("pos", E("un", "+", n)), ("negneg", E("un", "-", E("un", "-", n)))]
        for op in ("+", "-", "*", "/", "%", "==", "<", ">="):
            forms.append((f"R{op}", mk(op, a, n)))
            forms.append((f"L{op}", mk(op, n, a)))
            forms.append((f"Rneg{op}", mk(op, a, E("un", "-", n))))
            forms.append((f"Lneg{op}", mk(op, E("un", "-", n), a)))
        for tag, e in forms:
            for mode in ("min", "full"):
                prog = Prog([From("t"), Derive(n=L(k)), Select(v=e)], mode=mode)
                prog.features = {"negconst", f"mode:{mode}"}
                out.append((f"negconst:{k}:{tag}:{mode}", prog))
    return out


def family_c02(tier, seed):
    out = list(progs_negconst())
    items = list(trees_pairs()) + list(trees_unary()) + list(trees_misc()) + list(trees_nulltests()) + list(trees_div_i())
    chains = list(trees_chains())
    if tier == "quick":
        rc = random.Random(seed + 3)
        rc.shuffle(chains)
        chains = chains[:120]
    items += chains
    d3 = list(trees_depth3()) if tier == "quick" else list(trees_depth3(gops=("+", "*", "-", "/", "%")))
    # (a real-valued grandchild under % or // is outside the int-only domain)
    d3 = [x for x in d3 if not (x[0].split(":")[2] in ("%", "//") and "/" in x[0].split(":")[3])]
    if tier == "quick":
        rnd = random.Random(seed)
        rnd.shuffle(d3)
        d3 = d3[:400]
    items += d3
    for tag, e, feats in items:
        for mode in ("min", "full"):
            prog = Prog([From("t"), Select(v=e)], mode=mode)
            prog.features = set(feats) | {f"mode:{mode}"}
            out.append((f"{tag}:{mode}", prog))
    return out


# ---------------------------------------------------------------- C03: ordered family
def targeted_sort_join_take_family():
    """sort, then a join, then a take, then an order-resetting or projecting transform"""
    out = []
    for s_ in ("sort_asc", "sort_desc2", "sort_last_desc"):
        for j in ("join_inner", "join_left", "join_v"):
            for tk in ("take_n", "take_2", "take_range"):
                for after in ("group_agg", "agg", "select_2", "filter_gt", "derive_add", None):
                    seq = (s_, j, tk) + ((after,) if after else ())
                    pipe = build("sel", seq)
                    if pipe is not None:
                        out.append(("sel:" + ">".join(seq), Prog(pipe)))
    return out


def family_c03(tier, seed):
    """every pipeline (explicit-column head) that contains at least one sort, over the sort/take-centred alphabet"""
    names = ["sort_asc", "sort_desc2", "sort_last_desc", "sort_expr", "take_n", "take_2", "take_range", "take_open", "select_2", "select_comp", "select_first",
             "select_last", "derive_add", "filter_gt", "filter_null", "join_inner", "join_left", "join_right", "join_full", "group_agg", "agg",
             "group_take", "rownum", "distinct"]
    out = []
    L = 3
    for tag, prog in enumerate_family(L, heads=("sel",), only_names=names):
        if "sort" not in tag:
            continue
        out.append((tag, prog))
    # hand-written shapes named in the property: sort on computed / later-dropped columns, let-bound sorted tables,
    # consecutive takes, sort through join
    a, b, c = C("a"), C("b"), C("c")
    extra = [
        ("x:sort-computed-dropped", [From("t"), Derive(k=a + b), Sort("k"), Select("c")]),
        ("x:sort-computed-desc-take", [From("t"), Select("a", "b"), Derive(k=a - b), Sort("-k"), Take(2), Select("a")]),
        ("x:takes-consecutive", [From("t"), Sort("a"), Take(2, None), Take(2)]),
        ("x:takes-3", [From("t"), Sort("a"), Take(1, 3), Take(2, None), Take(1)]),
        ("x:take-filter-take", [From("t"), Select("a", "b"), Sort("-b"), Take(3), Filter(a > 0), Take(2)]),
        ("x:sort-sort", [From("t"), Select("a", "b"), Sort("a"), Sort("-b"), Take(2)]),
        ("x:sort-join-take", [From("t"), Select("a", "b"), Sort("-b"), Join("u", "==a"), Take(2)]),
        ("x:sort-leftjoin-select", [From("t"), Select("a", "b"), Sort("b"), Join("u", "==a", side="left"), Select("t.b", "u.b")]),
        ("x:sort-group-resets", [From("t"), Select("a", "b"), Sort("b"), Group(["a"], Aggregate(n=Fn("count", C("b")))), Sort("a")]),
        ("x:sort-agg", [From("t"), Sort("a"), Aggregate(s=Fn("sum", b))]),
        ("x:sort-derive-window-take", [From("t"), Select("a", "b"), Sort("a"), Derive(rn=Fn("row_number", C("this"))), Filter(C("rn") > 1), Take(1)]),
        ("x:sort-2key", [From("t"), Select("a", "b", "c"), Sort("a", "-b"), Take(2, 3), Select("c")]),
        ("x:sort-append", [From("t"), Select("a", "b"), Append([From("u"), Select("a", "b")]), Sort("a", "b"), Take(2)]),
    ]
    for tag, pipe in extra:
        out.append((tag, Prog(pipe)))
    lets = [
        ("x:let-sorted", Prog([From("x"), Take(2)], lets=[("x", [From("t"), Select("a", "b"), Sort("-a")])])),
        ("x:let-sorted-filter", Prog([From("x"), Filter(C("b") > 0), Take(1, 2)], lets=[("x", [From("t"), Select("a", "b"), Sort("b")])])),
        ("x:let-sorted-join", Prog([From("x"), Join("u", "==a", side="left"), Take(3)],
                                   lets=[("x", [From("t"), Select("a", "b"), Filter(C("a") > 0), Sort("b")])])),
        ("x:let-sorted-derive-select", Prog([From("x"), Derive(z=C("a") + 1), Select("z")], lets=[("x", [From("t"), Select("a", "b"), Sort("-b")])])),
    ]
    out += lets
    letn = ["sort_desc2", "sort_last_desc", "sort_asc", "take_n", "take_range", "take_open", "filter_gt", "group_agg", "group_take", "join_self_agg",
            "join_self", "join_left", "select_2", "select_last", "derive_add"]
    out += list(enumerate_let_family(2, let_names=["sorted", "sorted_take", "filtered_sorted", "computed_sorted"], only_names=letn))
    l3 = list(enumerate_let_family(3, let_names=["sorted", "sorted_take"], only_names=["sort_desc2", "take_n", "take_range", "group_agg", "group_take", "filter_gt", "join_self_agg", "select_2"]))
    if tier == "quick":
        rr = random.Random(seed + 1)
        rr.shuffle(l3)
        l3 = l3[:200]
    out += [x for x in l3 if x[0].count(">") == 2]
    # targeted families are never sampled away
    out += [("T|" + tg, pr) for tg, pr in targeted_let_family() + targeted_sort_join_take_family() + targeted_group_take_family() + targeted_takes_family()
            + [x for x in targeted_setop_family() if x[0].endswith(":sort") or x[0].endswith(":sort-take")]]
    if tier == "quick":
        rnd = random.Random(seed)
        head = [x for x in out if x[0].startswith("x:") or x[0].startswith("T|") or x[0].startswith("let_") or x[0].count(">") <= 1 or x[0].count(">") == 3]
        rest = [x for x in out if not (x[0].startswith("x:") or x[0].count(">") <= 1)]
        rnd.shuffle(rest)
        out = head + rest[:500]
    return out


# ---------------------------------------------------------------- C04: window family
WIN_FUNCS = ["sum", "count", "min", "max", "average", "lag", "lead", "first", "last", "rank", "rank_dense", "row_number"]
POSITIONAL = {"lag", "lead", "first", "last", "row_number"}


def winfn(name):
    b = C("b")
    if name in ("lag", "lead"):
        return Fn(name, 1, b)
    if name in ("rank", "rank_dense", "row_number"):
        return Fn(name, b)
    return Fn(name, b)


def family_c04(tier, seed):
    out = []
    head = [From("t"), Select("a", "b", "c")]
    frames = [("none", {}), ("rows-1..1", dict(rows=(-1, 1))), ("rows..0", dict(rows=(None, 0))), ("rows0..", dict(rows=(0, None))),
              ("rows-2..-1", dict(rows=(-2, -1))), ("rows1..2", dict(rows=(1, 2))), ("rows..", dict(rows=(None, None))),
              ("rolling2", dict(rolling=2)), ("rolling1", dict(rolling=1)), ("rolling3", dict(rolling=3)), ("expanding", dict(expanding=True)),
              ("range-1..1", dict(range=(-1, 1))), ("range..0", dict(range=(None, 0))), ("range0..2", dict(range=(0, 2))),
              ("range-2..-1", dict(range=(-2, -1))),
              ("rows..-1", dict(rows=(None, -1))), ("rows1..", dict(rows=(1, None))), ("range..-1", dict(range=(None, -1))), ("range1..", dict(range=(1, None))),
              ("rows..1", dict(rows=(None, 1))), ("rows-1..", dict(rows=(-1, None))), ("range..", dict(range=(None, None)))]
    if tier == "quick":
        frames = [f for f in frames if f[0] in ("none", "rows-1..1", "rows..0", "rows1..2", "rolling2", "expanding", "range-1..1", "range0..2",
                                                "rows..-1", "rows1..", "range1..", "rows-1..", "range..", "rows..")]
    for fn in WIN_FUNCS:
        for part in (None, "a"):
            for order in (None, "c", "-c"):
                for fname, fkw in frames:
                    if fname != "none":
                        if fn in ("lag", "lead", "rank", "rank_dense", "row_number"):
                            continue          # frame does not apply to these
                        if order is None:
                            continue          # bounded frames need an order
                        if fname.startswith("range") and order is None:
                            continue
                    if fn in POSITIONAL and order is None:
                        continue
                    d = Derive(w=winfn(fn))
                    inner = ([Sort(order)] if order else []) + ([Window(d, **fkw)] if fname != "none" else [d])
                    if part:
                        pipe = head + [Group([part], *inner)]
                    else:
                        pipe = head + inner
                    prog = Prog(pipe)
                    prog.features = {f"fn:{fn}", f"frame:{fname}", f"part:{part}", f"order:{order}"}
                    out.append((f"w:{fn}:{part}:{order}:{fname}", prog))
    a, b, c, w = C("a"), C("b"), C("c"), C("w")
    s = lambda col="b": Fn("sum", C(col))
    extra = [
        ("x:win-in-filter", [From("t"), Select("a", "b"), Filter(b < Fn("max", b))]),
        ("x:win-in-filter-sorted", [From("t"), Select("a", "b"), Sort("a"), Filter(Fn("row_number", C("this")) <= 1)]),
        ("x:win-in-filter-sorted-desc", [From("t"), Select("a", "b"), Sort("-b"), Filter(Fn("row_number", C("this")) <= 1)]),
        ("x:win-in-filter-lag", [From("t"), Select("a", "b"), Sort("b"), Filter((C("a") != Fn("lag", 1, C("a"))) | (C("a") == None))]),  # noqa: E711
        ("x:win-in-filter-group-sorted", [From("t"), Select("a", "b", "c"), Group(["a"], Sort("-c"), Filter(Fn("row_number", C("this")) <= 1))]),
        ("x:win-in-filter-rank", [From("t"), Select("a", "b"), Sort("b"), Filter(Fn("rank", C("b")) == 1)]),
        ("x:win-in-filter-rolling", [From("t"), Select("a", "b"), Sort("a"), Window(Filter(Fn("sum", C("b")) > 0), rolling=1)]),
        ("x:win-in-filter-first", [From("t"), Select("a", "b"), Sort("a"), Filter(C("b") == Fn("first", C("b")))]),
        ("x:win-in-sort", [From("t"), Select("a", "b"), Derive(w=Fn("sum", b)), Sort("w", "a")]),
        ("x:win-then-filter", [From("t"), Select("a", "b"), Sort("a"), Window(Derive(w=s()), rolling=2), Filter(w > 3)]),
        ("x:win-then-derive", [From("t"), Select("a", "b"), Sort("a"), Window(Derive(w=s()), rolling=2), Derive(tot=s(), n=Fn("count", b))]),
        ("x:win-then-derive-exp", [From("t"), Select("a", "b"), Sort("a"), Window(Derive(w=s()), expanding=True), Derive(m=Fn("max", b))]),
        ("x:win-then-filter-agg", [From("t"), Select("a", "b"), Sort("a"), Window(Derive(w=s()), rows=(-1, 0)), Filter(Fn("min", b) < b)]),
        ("x:win-then-select", [From("t"), Select("a", "b"), Sort("a"), Window(Derive(w=s()), rows=(0, 1)), Select("a", m=Fn("max", b))]),
        ("x:group-win-then-derive", [From("t"), Select("a", "b", "c"), Group(["a"], Sort("c"), Window(Derive(w=s()), rolling=2)), Derive(tot=s())]),
        ("x:group-win-then-group", [From("t"), Select("a", "b", "c"), Group(["a"], Sort("c"), Window(Derive(w=s()), expanding=True)),
                                    Group(["a"], Derive(g=s()))]),
        ("x:two-windows", [From("t"), Select("a", "b"), Sort("a"), Window(Derive(w=s()), rolling=2), Window(Derive(v=Fn("max", b)), rows=(0, 1))]),
        ("x:win-after-split", [From("t"), Select("a", "b"), Sort("a"), Take(3), Derive(w=s()), Filter(w > b)]),
        ("x:win-after-take1", [From("t"), Select("a", "b"), Sort("a"), Take(1), Derive(w=s())]),
        ("x:win-after-take2", [From("t"), Select("a", "b"), Sort("-a"), Take(2), Derive(w=s(), r=Fn("rank", b))]),
        ("x:win-filter-after-take1", [From("t"), Select("a", "b"), Sort("a"), Take(1), Filter(Fn("sum", b) > 0)]),
        ("x:group-take-after-take1", [From("t"), Select("a", "b"), Sort("a"), Take(1, 2), Group(["a"], Sort("b"), Take(1))]),
        ("x:win-after-take-range", [From("t"), Select("a", "b"), Sort("b"), Take(2, 2), Derive(n=Fn("count", b), m=Fn("max", a))]),
        ("x:win-after-agg", [From("t"), Group(["a"], Aggregate(sb=s())), Sort("a"), Derive(cum=Fn("sum", C("sb")))]),
        ("x:win-after-agg-exp", [From("t"), Group(["a"], Aggregate(sb=s())), Sort("a"), Window(Derive(cum=Fn("sum", C("sb"))), expanding=True)]),
        ("x:win-select", [From("t"), Sort("a"), Select("a", w=Fn("lag", 1, b))]),
        ("x:win-expr", [From("t"), Select("a", "b"), Derive(d=b - Fn("min", b), r=b * 2 > Fn("max", b))]),
        ("x:win-join", [From("t"), Select("a", "b"), Join("u", "==a"), Derive(w=Fn("sum", C("u.b")))]),
        ("x:group-take", [From("t"), Select("a", "b", "c"), Group(["a"], Sort("-c"), Take(2))]),
        ("x:group-take-range", [From("t"), Select("a", "b", "c"), Group(["a"], Sort("c"), Take(2, 3))]),
        ("x:group2-take", [From("t"), Select("a", "b", "c"), Group(["a", "b"], Sort("c"), Take(1))]),
        ("x:group-rank-filter", [From("t"), Select("a", "b", "c"), Group(["a"], Sort("c"), Derive(r=Fn("rank", c))), Filter(C("r") == 1)]),
        ("x:window-sort-inside", [From("t"), Select("a", "b"), Window(Sort("a"), Derive(w=s()), rows=(-1, 0))]),
    ]
    # a whole-partition aggregate BEFORE a framed window (and between two framed windows): the frame must not leak backwards
    for fname, fkw in [("rolling2", dict(rolling=2)), ("expanding", dict(expanding=True)), ("rows-1..0", dict(rows=(-1, 0))), ("rows0..1", dict(rows=(0, 1))),
                       ("range-1..0", dict(range=(-1, 0)))]:
        W = lambda: Window(Derive(w=s()), **fkw)
        extra += [
            (f"x:agg-before-win:{fname}", [From("t"), Select("a", "b"), Sort("a"), Derive(tot=s(), m=Fn("max", b)), W()]),
            (f"x:agg-before-win-count:{fname}", [From("t"), Select("a", "b"), Sort("a"), Derive(n=Fn("count", b), lo=Fn("min", b)), W()]),
            (f"x:filter-agg-before-win:{fname}", [From("t"), Select("a", "b"), Sort("a"), Filter(Fn("min", b) <= b), Filter(b <= Fn("max", b)), W()]),
            (f"x:select-agg-before-win:{fname}", [From("t"), Sort("a"), Select("a", "b", tot=s()), W()]),
            (f"x:group-agg-before-win:{fname}", [From("t"), Select("a", "b", "c"), Group(["a"], Sort("c"), Derive(tot=s()), W())]),
            (f"x:win-agg-win:{fname}", [From("t"), Select("a", "b"), Sort("a"), Window(Derive(v=Fn("max", b)), rows=(0, 1)), Derive(tot=s()), W()]),
        ]
    # a window function over the rows that a distinct kept, consumed by a filter and projected away again (the final projection
    # equal to the distinct columns is what makes the compiler choose SELECT DISTINCT)
    D2 = lambda: Group(["a", "b"], Take(1))
    extra += [
        ("x:distinct-win-filter-select", [From("t"), Select("a", "b"), D2(), Derive(w=s()), Filter(w > b), Select("a", "b")]),
        ("x:distinct-count-filter-select", [From("t"), Select("a", "b"), D2(), Derive(n=Fn("count", b)), Filter(C("n") > 1), Select("a", "b")]),
        ("x:distinct-group-win-filter-select", [From("t"), Select("a", "b"), D2(), Group(["a"], Derive(m=Fn("max", b))), Filter(C("m") == b), Select("a", "b")]),
        ("x:distinct-rownum-filter-select", [From("t"), Select("a", "b"), D2(), Sort("a", "b"), Derive(r=Fn("row_number", C("this"))), Filter(C("r") <= 1), Select("a", "b")]),
        ("x:distinct-win-filter", [From("t"), Select("a", "b"), D2(), Filter(Fn("min", b) < b)]),
        ("x:distinct-win", [From("t"), Select("a", "b"), D2(), Derive(w=s())]),
    ]
    # an order-sensitive window function after a join / append that follows the sort (the left input keeps its order)
    for jn, jt in (("inner", Join("u", "==a")), ("left", Join("u", "==a", side="left")), ("cond", Join("u", (C("this.a") == C("that.a")) & (C("this.b") >= C("that.b"))))):
        extra += [
            (f"x:sort-join-rownum:{jn}", [From("t"), Select("a", "b"), Sort("-b"), jt, Derive(r=Fn("row_number", C("this")))]),
            (f"x:sort-join-lag:{jn}", [From("t"), Select("a", "b"), Sort("b"), jt, Derive(l=Fn("lag", 1, C("t.b")))]),
            (f"x:sort-join-expanding:{jn}", [From("t"), Select("a", "b"), Sort("b"), jt, Window(Derive(cum=Fn("sum", C("t.b"))), expanding=True)]),
            (f"x:sort-join-rolling-filter:{jn}", [From("t"), Select("a", "b"), Sort("-b"), jt, Window(Filter(Fn("sum", C("t.b")) > 0), rolling=1)]),
        ]
    extra += [
        ("x:sort-append-rownum", [From("t"), Select("a", "b"), Sort("a", "b"), Append([From("u"), Select("a", "b")]), Sort("a", "b"), Derive(r=Fn("row_number", C("this")))]),
    ]
    for tag, pipe in extra:
        prog = Prog(pipe)
        prog.features = {"extra"}
        out.append((tag, prog))
    return out


# ---------------------------------------------------------------- C05: projection family
def family_c05(tier, seed):
    a, b, c = C("a"), C("b"), C("c")
    J = lambda side="inner": Join("u", "==a", side=side)
    progs = [
        ("p:sel", [From("t"), Select("a", "b")]),
        ("p:sel-reorder", [From("t"), Select("c", "a")]),
        ("p:sel-alias", [From("t"), Select("a", a2=a)]),
        ("p:sel-computed", [From("t"), Select("b", s=a + b, d=a - b)]),
        ("p:sel-excl", [From("t"), Select("a", "b", "c"), SelectNot("b")]),
        ("p:sel-excl2", [From("t"), Select("a", "b", "c"), SelectNot("a", "c")]),
        ("p:derive-excl", [From("t"), Select("a", "b"), Derive(x=a + 1), SelectNot("a")]),
        ("p:wild", [From("t")]),
        ("p:wild-derive", [From("t"), Derive(x=a + 1)]),
        ("p:wild-derive-filter", [From("t"), Derive(x=a + 1), Filter(C("x") > 1)]),
        ("p:wild-sort-take", [From("t"), Sort("a"), Take(2)]),
        ("p:wild-group-take", [From("t"), Group(["a"], Sort("b"), Take(1))]),
        ("p:join-both", [From("t"), J(), Select("t.a", "u.a")]),
        ("p:join-both-b", [From("t"), J(), Select("t.b", "u.b", "t.a")]),
        ("p:join-alias", [From("t"), J(), Select("t.a", ua=C("u.a"))]),
        ("p:join-wild", [From("t"), J()]),
        ("p:join-left-wild", [From("t"), J("left")]),
        ("p:join-sel-then", [From("t"), Select("a", "b"), J()]),
        ("p:join-sel-sub", [From("t"), Select("a", "b"), Join([From("u"), Select("a", "b")], "==a")]),
        ("p:join-sel-sub-alias", [From("t"), Select("a", "b"), Join([From("u"), Select("a", "b")], "==a", alias="w")]),
        ("p:star-col-computed", [From("t"), Derive(y=b + 1), Select("b", "y", Star("t"))]),
        ("p:star-col-computed2", [From("t"), Derive(y=b + 1, z=a - c), Select("c", "y", "a", "z", Star("t"))]),
        ("p:star-two-rels", [From("t"), J(), Select("t.b", Star("u"), Star("t"))]),
        ("p:star-two-rels-left", [From("t"), J("left"), Select("u.b", "t.c", Star("u"), Star("t"))]),
        ("p:star-first", [From("t"), Derive(y=b + 1), Select(Star("t"), "y")]),
        ("p:star-col", [From("t"), Select("a", Star("t"))]),
        ("p:star-mid", [From("t"), Derive(y=b + 1), Select("y", Star("t"), "b")]),
        ("p:star-known", [From("t"), Select("a", "b", "c"), Derive(y=b + 1), Select("b", "y", Star("t"))]),
        ("p:star-known-two", [From("t"), Select("a", "b", "c"), Join([From("u"), Select("a", "b")], "==a"), Select("t.b", Star("u"), Star("t"))]),
        ("p:star-sort-take", [From("t"), Derive(y=b + 1), Select("b", "y", Star("t")), Sort("y"), Take(1)]),
        ("p:star-filter-split", [From("t"), Derive(y=b + 1), Select("c", "y", Star("t")), Filter(C("y") > 0), Derive(z=C("y") * 2)]),
        ("p:shadow-derive", [From("t"), Select("a", "b"), Derive(a=b + 1)]),
        ("p:shadow-derive-self", [From("t"), Select("a", "b"), Derive(a=a + 1)]),
        ("p:shadow-derive-select", [From("t"), Select("a", "b"), Derive(a=b + 1), Select("a", "b")]),
        ("p:shadow-derive-filter", [From("t"), Select("a", "b"), Derive(a=a + 1), Filter(C("a") > 1)]),
        ("p:shadow-derive-sort-take", [From("t"), Select("a", "b"), Derive(a=b + 1), Sort("a"), Take(1)]),
        ("p:shadow-join-known", [From("t"), Select("a", "b"), Join([From("u"), Select("a", "b")], "==a"), Derive(a=C("t.b") + C("u.b"))]),
        ("p:shadow-join-known-b", [From("t"), Select("a", "b"), Join([From("u"), Select("a", "b")], "==a"), Derive(b=C("t.a") + 1), Select("b", "t.a")]),
        ("p:shadow-join-known-two", [From("t"), Select("a", "b"), Join([From("u"), Select("a", "b")], "==a"), Derive(a=C("t.b") + 1, b=C("u.a") + 2)]),
        ("p:shadow-twice", [From("t"), Select("a", "b"), Derive(a=b + 1), Derive(a=C("a") * 2)]),
        ("p:shadow-group", [From("t"), Select("a", "b", "c"), Group(["a"], Sort("c"), Derive(b=Fn("row_number", C("this"))))]),
        ("p:append-unnamed-top", [From("t"), Select(a * 2, "c"), Append([From("u"), Select("a", "b")])]),
        ("p:append-unnamed-top-both", [From("t"), Select(a * 2, b + 1), Append([From("u"), Select("a", "b")])]),
        ("p:append-unnamed-bottom", [From("t"), Select("a", "b"), Append([From("u"), Select(C("a") + 1, "b")])]),
        ("p:append-shadowed-top", [From("t"), Select("a", "b"), Derive(a=b + 1), Append([From("u"), Select("a", "b", x=C("a") + C("b"))])]),
        ("p:append-permute-after", [From("t"), Select("a", "b"), Append([From("u"), Select("a", "b")]), Select("b", "a")]),
        ("p:append-subset-after", [From("t"), Select("a", "b"), Append([From("u"), Select("a", "b")]), Select("b")]),
        ("p:append-derive-chain-permute", [From("t"), Select("a", "b"), Derive(z=a + b), Derive(w=C("z") * 2), Select("b", "w"),
                                           Append([From("u"), Select("a", "b")]), Select("w", "b")]),
        ("p:append-derive-chain-subset", [From("t"), Select("a", "b"), Derive(z=a + b), Derive(w=C("z") * 2), Select("b", "w"),
                                          Append([From("u"), Select("a", "b")]), Select("w")]),
        ("p:append-derive-chain", [From("t"), Select("a", "b"), Derive(z=a + b), Derive(w=C("z") * 2), Select("b", "w"), Append([From("u"), Select("a", "b")])]),
        ("p:append-derive-permute-filter", [From("t"), Select("a", "b"), Derive(z=a + b), Select("z", "a"), Append([From("u"), Select("a", "b")]),
                                            Select("a", "z"), Filter(C("z") > 0)]),
        ("p:alias-case-variant", [From("t"), Select("a", "b", A=a)]),
        ("p:alias-case-variant-only", [From("t"), Select("b", A=a)]),
        ("p:alias-case-variant-derive", [From("t"), Select("a", "b"), Derive(B=b)]),
        ("p:alias-case-variant-split", [From("t"), Select("a", "b", A=a), Sort("b"), Take(1), Filter(C("A") > 0)]),
        ("p:alias-same-name", [From("t"), Select("b", a=a)]),
        ("p:wild-excl", [From("t"), SelectNot("b")]),
        ("p:wild-excl2", [From("t"), SelectNot("a", "c")]),
        ("p:join-wild-excl-left", [From("t"), J(), SelectNot("t.b")]),
        ("p:join-wild-excl-right", [From("t"), J(), SelectNot("u.b")]),
        ("p:join-wild-excl-both", [From("t"), J("left"), SelectNot("t.c", "u.a")]),
        ("p:join-wild-excl-derive", [From("t"), J(), Derive(x=C("t.a") + 1), SelectNot("t.b")]),
        ("p:join-derive", [From("t"), Select("a", "b"), Derive(x=a + 1), J()]),
        ("p:join-excl-right", [From("t"), Select("a", "b"), Join([From("u"), Select("a", "b")], "==a"), SelectNot("u.a")]),
        ("p:join-excl-left", [From("t"), Select("a", "b"), Join([From("u"), Select("a", "b")], "==a"), SelectNot("t.b")]),
        ("p:join-excl-two", [From("t"), Select("a", "b", "c"), Join([From("u"), Select("a", "b")], "==a"), SelectNot("t.a", "u.b")]),
        ("p:join-alias-excl", [From("t"), Select("a", "b"), Join([From("u"), Select("a", "b")], "==a", alias="w"), SelectNot("w.a")]),
        ("p:join-known-group-take", [From("t"), Select("a", "b"), Join([From("u"), Select("a", "b")], "==a"), Group(["t.a"], Sort("u.b"), Take(1))]),
        ("p:join-known-group-take-r", [From("t"), Select("a", "b"), Join([From("u"), Select("a", "b")], "==a"), Group(["u.b"], Sort("t.b"), Take(1))]),
        ("p:join-let-excl", Prog([From("x"), Join("y", "==a"), SelectNot("y.a")], lets=[("x", [From("t"), Select("a", "b")]), ("y", [From("u"), Select("a", "b")])])),
        ("p:join-lit-excl", [FromLit([{"a": 1, "k": 2}, {"a": 3, "k": 4}]), Join([From("u"), Select("a", "b")], "==a"), SelectNot("u.a")]),
        ("p:join-derive-after", [From("t"), Select("a", "b"), J(), Derive(x=C("t.a") + C("u.b"))]),
        ("p:join-filter-split", [From("t"), Select("a", "b"), J(), Derive(x=C("t.a") + 1), Filter(C("x") > 1)]),
        ("p:join-take-derive", [From("t"), Select("a", "b"), Sort("a"), J(), Take(3), Derive(x=C("u.b") + 1)]),
        ("p:sort-project", [From("t"), Sort("a"), Select("b")]),
        ("p:sort-project-take", [From("t"), Sort("-a"), Select("b", "c"), Take(2)]),
        ("p:sort-computed-project", [From("t"), Derive(k=a * 2), Sort("k"), Select("b")]),
        ("p:sort-project-filter", [From("t"), Sort("a"), Select("b"), Filter(b > 0)]),
        ("p:group-take-sel", [From("t"), Select("a", "b", "c"), Group(["a"], Sort("b"), Take(1))]),
        ("p:group-take-project", [From("t"), Select("a", "b", "c"), Group(["a"], Sort("b"), Take(1)), Select("c", "a")]),
        ("p:group-take2-derive", [From("t"), Select("a", "b"), Group(["a"], Sort("-b"), Take(2)), Derive(x=b + 1)]),
        ("p:group-agg-order", [From("t"), Group(["b", "a"], Aggregate(n=Fn("count", C("this")), s=Fn("sum", c)))]),
        ("p:group-agg-sel", [From("t"), Group(["a"], Aggregate(n=Fn("count", C("this")), s=Fn("sum", b))), Select("s", "a")]),
        ("p:agg", [From("t"), Aggregate(n=Fn("count", C("this")), m=Fn("max", a))]),
        ("p:agg-derive", [From("t"), Aggregate(n=Fn("count", C("this"))), Derive(d=C("n") + 1)]),
        ("p:derive-reuse", [From("t"), Select("a", "b"), Derive(x=a + 1), Derive(y=C("x") * 2), Select("y", "x")]),
        ("p:derive-dup-expr", [From("t"), Select("a", "b"), Derive(x=a + 1, y=a + 1)]),
        ("p:window-col", [From("t"), Select("a", "b"), Sort("a"), Derive(r=Fn("row_number", C("this"))), Select("r", "b")]),
        ("p:window-filter-project", [From("t"), Select("a", "b"), Derive(m=Fn("max", b)), Filter(b == C("m")), Select("a")]),
        ("p:append", [From("t"), Select("a", "b"), Append([From("u"), Select("a", "b")])]),
        ("p:append-rename", [From("t"), Select(x=a, y=b), Append([From("u"), Select("a", "b")])]),
        ("p:distinct", [From("t"), Select("a", "b"), Group(["a", "b"], Take(1))]),
        ("p:distinct-project", [From("t"), Select("a", "b"), Group(["a", "b"], Take(1)), Select("b")]),
        ("p:shadow-derive", [From("t"), Select("a", "b"), Derive(a=a + 1), Select("a", "b")]),
        ("p:lit", [FromLit([{"a": 1, "b": 2}, {"a": 3, "b": None}]), Select("b", "a")]),
        ("p:lit-join", [FromLit([{"a": 1, "k": 2}, {"a": 3, "k": 4}]), Join("u", "==a"), Select("k", "u.b")]),
        ("p:take-project", [From("t"), Select("a", "b", "c"), Sort("c"), Take(2, 3), Select("a")]),
        ("p:filter-computed-project", [From("t"), Derive(x=a + b), Filter(C("x") > 0), Select("c")]),
        ("p:let", Prog([From("x"), Select("b")], lets=[("x", [From("t"), Select("a", "b")])])),
        ("p:let-join-self", Prog([From("x"), Join("x", "==a", alias="y"), Select("x.a", "y.b")], lets=[("x", [From("t"), Select("a", "b"), Filter(C("a") > 0)])])),
    ]
    out = []
    for tag, p in progs:
        out.append((tag, p if isinstance(p, Prog) else Prog(p)))
    # plus every length-<=2 pipeline of the general alphabet followed by a projection
    n = 0
    for tag, prog in enumerate_family(2 if tier == "thorough" else 1, heads=("sel", "wild")):
        for ptag, proj in (("last", t_select_last), ("comp", t_select_comp)):
            try:
                f = Frame(prog.main)
                out.append((f"{tag}>proj_{ptag}", Prog(prog.main + proj(f))))
            except (Skip, Unsupported):
                pass
    return out


# ---------------------------------------------------------------- C09: generated-name capture family
C09_SCHEMA = {"table_0": ["a", "_expr_0", "c"], "table_1": ["a", "_expr_0"], "table_2": ["a", "d"],
              # two tables of the same name in different schemas (SQLite: main and temp exist in every connection)
              "main.tq": ["a", "b"], "temp.tq": ["a", "b"]}


def family_c09(tier, seed):
    global CFG
    old = dict(CFG)
    CFG.update({"t": "table_0", "u": "table_1", "cols": ("a", "_expr_0", "c"), "ucols": ("a", "_expr_0"), "schema": C09_SCHEMA})
    try:
        out = list(enumerate_family(2, heads=("sel", "wild")))
        e0 = C("_expr_0")
        extra = [
            ("x:let-named-table_1", Prog([From("table_0"), Select("a", "c"), Join("table_1", "==a"), Select("table_0.c", "table_1._expr_0")])),
            ("x:cte-vs-user-table_0", Prog([From("table_1"), Derive(x=C("a") + 1), Filter(C("x") > 1), Join("table_0", "==a"), Select("x", "table_0.c")])),
            ("x:alias-table_0", Prog([From("table_2", alias="table_0"), Derive(x=C("a") + 1), Filter(C("x") > 0), Select("x", "d")])),
            ("x:derive-named-_expr_1", Prog([From("table_0"), Select("a", "_expr_0"), Derive(_expr_1=C("a") + 1), Group(["a"], Sort("_expr_0"), Take(1))])),
            ("x:two-ctes", Prog([From("table_0"), Select("a", "c"), Derive(x=C("a") + 1), Filter(C("x") > 1), Sort("c"), Take(2), Join("table_1", "==a"), Filter(C("table_1._expr_0") > 0)])),
            ("x:subpipeline-join", Prog([From("table_0"), Select("a", "c"), Join([From("table_1"), Derive(k=C("a") + 1), Filter(C("k") > 1)], "==a")])),
            # duplicate column names at a split next to a user column named like the generated replacement
            ("x:dup-at-split-user-_expr_0", Prog([From("table_0"), Join("table_1", "==a"), Select("table_0.a", "table_1.a", "table_0._expr_0"), Sort("_expr_0"), Take(1), Filter(C("_expr_0") > 0)])),
            ("x:dup-at-split-user-_expr_0-b", Prog([From("table_0"), Join("table_1", "==a"), Select("table_0.a", "table_1.a", "table_0._expr_0"), Sort("-_expr_0"), Take(2), Filter(C("_expr_0") != None), Sort("_expr_0")])),  # noqa: E711
            ("x:dup-at-split-user-_expr_1", Prog([From("table_0"), Select("a", "c", _expr_1=C("c") + 1), Join("table_1", "==a"), Select("table_0.a", "table_1.a", "table_1._expr_0", "_expr_1"), Sort("_expr_1"), Take(1), Filter(C("_expr_1") > 0)])),
            ("x:dup-at-split-derive", Prog([From("table_0"), Join("table_1", "==a"), Select("table_0.a", "table_1.a", "table_0._expr_0"), Derive(z=C("_expr_0") + 1), Filter(C("z") > 1)])),
            # relation instances that need an invented alias next to user relations named like generated ones
            ("x:dup-table-no-alias", Prog([From("table_2"), Join("table_0", C("table_2.a") == C("table_0.a")), Join("table_2", C("table_0.c") == C("that.d"))])),
            ("x:dup-table-no-alias-1", Prog([From("table_2"), Join("table_1", C("table_2.a") == C("table_1.a")), Join("table_2", C("table_1.a") == C("that.d"))])),
            ("x:self-join-table_0", Prog([From("table_0"), Join("table_0", C("this.a") == C("that.c"))])),
            ("x:self-join-table_1-after-cte", Prog([From("table_0"), Select("a", "c"), Derive(x=C("a") + 1), Filter(C("x") > 1), Join("table_1", "==a"), Join("table_1", C("table_0.c") == C("that.a"))])),
            ("x:alias-like-generated", Prog([From("table_2", alias="table_1"), Join("table_2", C("table_1.a") == C("that.d"))])),
            ("x:let-named-table_0", Prog([From("table_0"), Join("table_2", "==a")], lets=[("table_0", [From("table_1"), Filter(C("a") > 0)])])),
            ("x:let-named-table_0-cte", Prog([From("table_2"), Derive(x=C("a") + 1), Filter(C("x") > 1), Join("table_0", "==a"), Select("x", "table_0._expr_0")],
                                            lets=[("table_0", [From("table_1"), Filter(C("a") > 0)])])),
        ]
        xa, ya = C("x.a"), C("y.a")
        extra += [
            # tables that differ only in their schema must both keep their names
            ("x:schema-join", Prog([From("main.tq", alias="x"), Join("temp.tq", xa == ya, alias="y"), Select("x.b", yb=C("y.b"))])),
            ("x:schema-join-rev", Prog([From("temp.tq", alias="x"), Join("main.tq", xa == ya, alias="y", side="left"), Select("x.b", yb=C("y.b"))])),
            ("x:schema-join-cte", Prog([From("main.tq", alias="x"), Derive(k=C("a") + 1), Filter(C("k") > 1), Join("temp.tq", xa == ya, alias="y"), Select("k", yb=C("y.b"))])),
            ("x:schema-append", Prog([From("main.tq"), Select("a", "b"), Append([From("temp.tq"), Select("a", "b")])])),
            ("x:schema-let-same-name", Prog([From("tq"), Join("temp.tq", C("tq.a") == ya, alias="y"), Select("tq.b", yb=C("y.b"))],
                                            lets=[("tq", [From("main.tq"), Filter(C("a") > 0)])])),
            ("x:schema-join-user-table_0", Prog([From("main.tq", alias="x"), Join("temp.tq", xa == ya, alias="y"), Join("table_0", xa == C("table_0.a")),
                                                 Select("x.b", yb=C("y.b"), c=C("table_0.c"))])),
            ("x:schema-join-twice", Prog([From("main.tq", alias="x"), Join("temp.tq", xa == ya, alias="y"), Join("main.tq", ya == C("z.a"), alias="z"),
                                          Select("x.b", yb=C("y.b"), zb=C("z.b"))])),
        ]
        out += extra
    finally:
        CFG.clear()
        CFG.update(old)
    return out
