"""Glue between a symdb family and a property Run: classification, known findings, evidence."""
import collections
import json
import os
import re
import time

import run as prun
import core

HELPER = re.compile(r"^_expr_\d+$")


def signature(o):
    """role-based signature of a reproduced violation (what known_findings entries match on)"""
    sig = {"engine": "symdb", "kind": getattr(o, "kind", o.status)}
    sql = getattr(o, "sql", "") or ""
    det = getattr(o, "detail", "") or ""
    sig["final_select_star"] = bool(re.search(r"SELECT (\w+\.)?\*[^()]*$", sql)) or bool(re.search(r"\)\s*SELECT\s+\*", sql))
    if sig["kind"] == "arity":
        m = re.search(r"SQLite returns columns (\[.*?\]), final frame is (\[.*?\])", det)
        if m:
            act, exp = eval(m.group(1)), eval(m.group(2))
            act = [re.sub(r":\d+$", "", x) if isinstance(x, str) else x for x in act]   # SQLite renames duplicates a -> a:1
            extra = list(act)
            for e in exp:
                if e in extra:
                    extra.remove(e)
            missing = list(exp)
            for x in act:
                if x in missing:
                    missing.remove(x)
            sig["extra_all_helper"] = bool(extra) and all(HELPER.match(x or "") for x in extra)
            sig["missing"] = len(missing)
            # name shadowing: the final frame holds an unnamed (shadowed) column
            sig["frame_has_unnamed"] = any(e is None for e in exp)
            sig["arity_delta"] = len(act) - len(exp)
    if sig["kind"] == "arity":
        # C06 form: the two programs' SQL texts disagree in arity
        m = re.search(r"base SQL returns (\[.*?\]), rewritten returns (\[.*?\])", det)
        if m:
            base_cols, rw_cols = eval(m.group(1)), eval(m.group(2))
            bsql = getattr(o, "base_sql", "") or ""
            star = lambda q: bool(re.search(r"SELECT (\w+\.)?\*[^()]*$", q)) or bool(re.search(r"\)\s*SELECT\s+\*", q))

            def extra_helpers(more, fewer):
                rest = list(more)
                for c in fewer:
                    if c in rest:
                        rest.remove(c)
                return bool(rest) and all(HELPER.match(x or "") for x in rest) and len(more) - len(fewer) == len(rest)
            sig["base_leaks_helper_through_star"] = extra_helpers(base_cols, rw_cols) and star(bsql)
            sig["rewritten_leaks_helper_through_star"] = extra_helpers(rw_cols, base_cols) and star(sql)
    if sig["kind"] == "names":
        m = re.search(r"SQLite returns columns (\[.*?\]), final frame is (\[.*?\])", det)
        if m:
            act, exp = eval(m.group(1)), eval(m.group(2))
            act = [re.sub(r":\d+$", "", x) if isinstance(x, str) else x for x in act]
            sig["permutation"] = sorted(map(str, act)) == sorted(map(str, exp))
            sig["expected_has_duplicates"] = len(set(exp)) < len(exp)
    if sig["kind"] == "panic":
        m = re.search(r"@ (\S+?):(\d+)", det)
        sig["panic_at"] = os.path.basename(m.group(1)) + ":" + m.group(2) if m else "?"
        sig["panic_msg"] = det.split(" @ ")[0][:80]
    feats = getattr(o, "features", None)
    if feats:
        sig["features"] = sorted(feats)
    return sig


def run_family(R, driver_path, jobs, what, max_unsupported=0.02, max_inconclusive=0.02, rejected_ok=True,
               postprocess=None):
    """jobs: list of (fn, tag, payload, kw). Updates R. Returns outcomes."""
    t = time.time()
    outs = prun.run_jobs(driver_path, jobs)
    st = collections.Counter(o.status for o in outs)
    core.log(f"[{what}] {len(jobs)} programs in {time.time()-t:.1f}s: {dict(st)}")
    cov = R.cov
    cov.setdefault("families", {})[what] = {"programs": len(jobs), "outcomes": dict(st)}
    cov["programs"] = cov.get("programs", 0) + len(jobs)
    for o in outs:
        if postprocess:
            postprocess(o)
        s = o.status
        if s == "ok":
            R.q("unsat", getattr(o, "solver_s", 0.0))
            if len(cov["samples"]) < 6 or (len(cov["samples"]) < 12 and len(getattr(o, "sql", "")) > 140):
                R.sample({"prql": o.prql, "sql": o.sql, "verdict": "unsat: results equal on every instance within the bound"})
        elif s in ("violation", "panic"):
            if s == "violation" and getattr(o, "kind", "") == "result":
                R.q("sat", getattr(o, "solver_s", 0.0))
            sig = signature(o)
            art = {k: v for k, v in o.__dict__.items() if k not in ("trace",)}
            what_ = f"{sig['kind']}: {getattr(o, 'detail', '')[:200]} | prql: {o.prql.strip()[:200]!r}"
            R.violation(sig, what_, art)
        elif s == "unreproduced":
            R.q("sat", getattr(o, "solver_s", 0.0))
            R.engine_error(f"{what}: solver model did not reproduce on SQLite although encoder agrees with SQLite: {o.prql!r} data={o.data}")
        elif s in ("mismatch", "error", "vacuous"):
            R.engine_error(f"{what}: {s}: {getattr(o, 'detail', '')[:300]} prql={getattr(o, 'prql', '')!r}")
        elif s == "inconclusive":
            R.q("unknown", getattr(o, "solver_s", 0.0))
    n = max(1, len(outs))
    uns = st["sql_unsupported"] + st["ref_unsupported"] + st["sql_unparseable"]
    cov["disagreements_checked"] = cov.get("disagreements_checked", 0) + st["violation"] + st["unreproduced"]
    if uns / n > max_unsupported:
        ex = next(o for o in outs if o.status in ("sql_unsupported", "ref_unsupported", "sql_unparseable"))
        R.engine_error(f"{what}: {uns}/{n} programs outside the encoded subset (> {max_unsupported:.0%}); e.g. {ex.status}: {getattr(ex,'detail','')} for {ex.prql!r}")
    if st["inconclusive"] / n > max_inconclusive:
        R.engine_error(f"{what}: {st['inconclusive']}/{n} solver queries inconclusive")
    if not rejected_ok and st["rejected"]:
        ex = next(o for o in outs if o.status == "rejected")
        R.engine_error(f"{what}: compiler rejected {st['rejected']} generated programs, e.g. {ex.prql!r}: {ex.detail}")
    cov.setdefault("unsupported_examples", [])
    for o in outs:
        if o.status in ("sql_unsupported", "ref_unsupported", "rejected") and len(cov["unsupported_examples"]) < 8:
            cov["unsupported_examples"].append({"status": o.status, "detail": getattr(o, "detail", ""), "prql": o.prql})
    return outs


COMMON_ASSUMPTIONS = [
    "database bound: <=k rows per base table (k in coverage.bounds), nullable INTEGER cells with |v| <= 2^20; text/float/date columns outside the claim",
    "sort keys and positional window keys of present rows are non-null and pairwise distinct wherever a position decides the result (SQL leaves ties and NULL placement to the engine)",
    "divisors are non-zero where the reference divides (PRQL does not define division by zero)",
    "a windowed sum over a segment without non-null values is left open (book is silent; SQL yields NULL)",
    "program dimension is covered by exhaustive enumeration of the stated template alphabet up to the stated length, each program compiled by the real compiler built from the current tree; the solver verdict is over database instances",
    "emitted SQL text is re-parsed with the repo's sqlparser dependency; SQLite 3.40 executes replays; targets sqlite and generic only",
]
TRUSTED = ["z3 5.1.0", "sqlparser 0.60 (re-parsing emitted text)", "SQLite 3.40.1 (replay oracle)",
           "engines/symdb/{rel,prql,sqlsem}.py (reference and SQL semantics; sqlsem self-checked against SQLite on every replay)"]
