"""C06: rewrites PRQL defines as equivalent, applied to abstract programs."""
import copy

from prql import *  # noqa
import prql as P
from families import Frame, Skip, enumerate_family, ALPHABET, t_select_2  # noqa


def cols_of(e, acc=None):
    acc = [] if acc is None else acc
    if e.k == "col":
        if e.a[0] not in acc:
            acc.append(e.a[0])
    elif e.k == "bin":
        cols_of(e.a[1], acc), cols_of(e.a[2], acc)
    elif e.k == "un":
        cols_of(e.a[1], acc)
    elif e.k == "case":
        for c, v in e.a[0]:
            cols_of(c, acc), cols_of(v, acc)
    elif e.k == "in":
        cols_of(e.a[0], acc)
    elif e.k in ("fn", "call"):
        for a in e.a[1]:
            cols_of(a, acc)
    return acc


def has_fn(e):
    if e.k in ("fn", "call"):
        return True
    if e.k == "bin":
        return has_fn(e.a[1]) or has_fn(e.a[2])
    if e.k == "un":
        return has_fn(e.a[1])
    if e.k == "case":
        return any(has_fn(c) or has_fn(v) for c, v in e.a[0])
    if e.k == "in":
        return has_fn(e.a[0])
    return False


def subst(e, m):
    if e.k == "col":
        return C(m.get(e.a[0], e.a[0]))
    if e.k == "bin":
        return E("bin", e.a[0], subst(e.a[1], m), subst(e.a[2], m))
    if e.k == "un":
        return E("un", e.a[0], subst(e.a[1], m))
    if e.k == "case":
        return E("case", [(subst(c, m), subst(v, m)) for c, v in e.a[0]])
    if e.k == "in":
        return E("in", subst(e.a[0], m), e.a[1], e.a[2])
    if e.k == "fn":
        return E("fn", e.a[0], [subst(a, m) for a in e.a[1]])
    return e


def first_literal(e):
    if e.k == "lit":
        return e
    if e.k == "bin":
        return first_literal(e.a[1]) or first_literal(e.a[2])
    if e.k == "un":
        return first_literal(e.a[1])
    return None


def replace_node(e, target, new):
    if e is target:
        return new
    if e.k == "bin":
        return E("bin", e.a[0], replace_node(e.a[1], target, new), replace_node(e.a[2], target, new))
    if e.k == "un":
        return E("un", e.a[0], replace_node(e.a[1], target, new))
    return e


def qualified(pipe):
    """does the pipeline text use relation-qualified names (they would not survive renaming the prefix)"""
    txt = pipe_text(pipe)
    import re
    return bool(re.search(r"\b[a-z]\w*\.[a-z_]\w*", txt.replace("..", "  ")))


class TextProg:
    """rewritten program given as text (+ nothing else): only compiled, never interpreted"""

    def __init__(self, text):
        self._t = text

    def text(self):
        return self._t


def rewrites_of(prog):
    """yield (kind, rewritten program) for every applicable rewrite site of a base program without lets"""
    main = prog.main
    n = len(main)
    # 1/2. name a prefix with let / into
    for i in range(1, n):
        if main[i].k in ("from",) or qualified(main[i:]):
            continue
        yield (f"let@{i}", Prog([From("pre_x")] + main[i:], lets=[("pre_x", main[:i])]))
        yield (f"into@{i}", Prog([From("pre_x")] + main[i:], into=[("pre_x", main[:i])]))
        if main[0].k == "from" and isinstance(main[0].table, str) and not main[0].alias and "." not in main[0].table:
            # the prefix named like the table it reads: the let shadows the table for the rest of the program only
            tb = main[0].table
            yield (f"let-shadow@{i}", Prog([From(tb)] + main[i:], lets=[(tb, main[:i])]))
        body = pipe_text(main[:i], "full", "    ")
        yield (f"module-let@{i}", TextProg("module m {\n  let pre_x = (\n" + body + "\n  )\n}\n" + pipe_text([From("m.pre_x")] + main[i:]) + "\n"))
    # 3. user functions for scalar expressions in derive / filter
    for i, t in enumerate(main):
        exprs = []
        if t.k == "derive":
            exprs = [(j, e) for j, (nm, e) in enumerate(t.items)]
        elif t.k == "filter":
            exprs = [(None, t.e)]
        for j, e in exprs:
            if e.k in ("col", "lit", "null", "bool") or e.k == "call":
                continue
            cs = cols_of(e)
            if not cs or len(cs) > 3 or any("." in c for c in cs) or "this" in cs:
                continue
            params = [f"p{k}" for k in range(len(cs))]
            body = pp(subst(e, dict(zip(cs, params))), "full")

            def with_expr(new_e):
                t2 = copy.copy(t)
                if t.k == "derive":
                    items = list(t.items)
                    items[j] = (items[j][0], new_e)
                    t2.items = items
                else:
                    t2.e = new_e
                return main[:i] + [t2] + main[i + 1:]
            fdef = f"let f1 = {' '.join(params)} -> {body}"
            yield (f"func-positional@{i}", Prog(with_expr(Call("f1", *[C(c) for c in cs])), funcs=[fdef]))
            piped = E("pipecall", "f1", [C(c) for c in cs])
            yield (f"func-piped@{i}", Prog(with_expr(piped), funcs=[fdef]))
            yield (f"func-module@{i}", Prog(with_expr(Call("m.f1", *[C(c) for c in cs])), funcs=["module m {\n  " + fdef + "\n}"]))
            lit = first_literal(e)
            if lit is not None and lit.a[0] >= 0:
                e2 = replace_node(subst(e, dict(zip(cs, params))), None, None)
                # replace the literal by a named parameter whose default is that literal
                e_param = subst(replace_node(e, lit, C("k__")), dict(zip(cs, params) , k__="k"))
                fdef2 = f"let f2 = {' '.join(params)} k:{lit.a[0]} -> {pp(e_param, 'full')}"
                yield (f"func-default@{i}", Prog(with_expr(Call("f2", *[C(c) for c in cs])), funcs=[fdef2]))
                yield (f"func-named@{i}", Prog(with_expr(Call("f2", *[C(c) for c in cs], k=lit.a[0])), funcs=[fdef2]))
    # 4. split a conjunctive filter
    for i, t in enumerate(main):
        if t.k == "filter" and t.e.k == "bin" and t.e.a[0] == "&&" and not has_fn(t.e):
            yield (f"split-filter@{i}", Prog(main[:i] + [Filter(t.e.a[1]), Filter(t.e.a[2])] + main[i + 1:]))
    # 5. frame identities
    for i in range(1, n + 1):
        if i < n and main[i].k == "from":
            continue
        yield (f"filter-true@{i}", Prog(main[:i] + [Filter(E("bool", True))] + main[i:]))
        try:
            f = Frame(main[:i])
            if f.all_ref() and all("." not in nm for nm in f.names) and len(set(f.names)) == len(f.names):
                yield (f"select-all@{i}", Prog(main[:i] + [Select(*f.names)] + main[i:]))
        except Exception:
            pass


def rewrites_of_keep(prog):
    """rewrites of a program that already carries user functions: the function declarations are kept"""
    for kind, rw in rewrites_of(Prog(prog.main)):
        if isinstance(rw, Prog):
            rw.funcs = list(prog.funcs) + [x for x in rw.funcs if x not in prog.funcs]
            # a second function must not reuse the first one's name
            if prog.funcs and kind.startswith("func"):
                continue        # one user function per program: a second one would reuse the name
            yield kind, rw
        elif not prog.funcs:
            yield kind, rw


def t_filter_and(f):
    i = f.ints()
    if len(i) < 2:
        raise Skip()
    return [Filter((C(i[0]) > 0) & (C(i[1]) < 5))]


def t_derive_lit(f):
    i = f.ints()
    if len(i) < 2:
        raise Skip()
    from families import fresh
    return [Derive(**{fresh("z"): C(i[0]) * 3 + C(i[1])})]


def t_filter_halfopen(f):
    i = f.ints()
    if not i:
        raise Skip()
    return [Filter((C(i[0]) >= 1) & (C(i[0]) < 5))]


def t_filter_open(f):
    """both comparisons strict"""
    i = f.ints()
    if not i:
        raise Skip()
    return [Filter((C(i[0]) > 1) & (C(i[0]) < 5))]


def t_filter_swapped(f):
    """upper bound first: never an inclusive range, whatever the comparison operators"""
    i = f.ints()
    if not i:
        raise Skip()
    return [Filter((C(i[0]) <= 5) & (C(i[0]) >= 1))]


def t_filter_closed(f):
    i = f.ints()
    if not i:
        raise Skip()
    return [Filter((C(i[0]) >= 1) & (C(i[0]) <= 5))]


def t_derive_halfopen(f):
    i = f.ints()
    if len(i) < 2:
        raise Skip()
    from families import fresh
    return [Derive(**{fresh("p_h"): (C(i[1]) > 0) & (C(i[1]) <= 3), fresh("p_g"): (C(i[0]) >= 0) & (C(i[0]) < 2) | (C(i[1]) == None)})]  # noqa: E711


def let_twice_pairs(prog):
    """a prefix used twice: inlined twice (base) versus named with let and referenced twice (rewritten)"""
    main = prog.main
    for i in range(2, len(main) + 1):
        pre = main[:i]
        if qualified(pre) or any(t.k in ("join", "append") for t in pre):
            continue
        try:
            f = Frame(pre)
        except Exception:
            continue
        ints = f.ints()
        if len(ints) < 2 or sum(1 for c in f.cols if c.name == ints[0]) != 1:
            continue
        k, v = ints[0], ints[1]
        sub = lambda src: src + [Group([C(k)], Aggregate(m_=Fn("max", C(v))))]
        base = Prog(pre + [Join(sub(list(pre)), "==" + k, side="left", alias="y")] + [Select(f"{'t' if False else ''}{k}" if False else C(k) if False else "y.m_")])
        rew = Prog([From("pre_x"), Join(sub([From("pre_x")]), "==" + k, side="left", alias="y"), Select("y.m_")], lets=[("pre_x", pre)])
        yield (f"let-twice@{i}", base, rew)
        base2 = Prog(pre + [Join(sub(list(pre)), "==" + k, side="left", alias="y")])
        rew2 = Prog([From("pre_x"), Join(sub([From("pre_x")]), "==" + k, side="left", alias="y")], lets=[("pre_x", pre)])
        yield (f"let-twice-all@{i}", base2, rew2)


def family_c06(tier, seed):
    import random
    alpha = dict(ALPHABET, filter_and=t_filter_and, derive_lit=t_derive_lit, filter_halfopen=t_filter_halfopen, filter_closed=t_filter_closed,
                 derive_halfopen=t_derive_halfopen, filter_open=t_filter_open, filter_swapped=t_filter_swapped)
    bases = list(enumerate_family(2, heads=("sel",), alphabet=alpha))
    # sort -> take -> row-preserving transform: the prefix ending in `take` is the interesting rewrite site
    from families import build
    for s_ in ("sort_asc", "sort_desc2"):
        for tk in ("take_n", "take_range"):
            for w_ in ("win_sum", "rownum", "group_take", "derive_add", "filter_gt", "group_rownum", "agg"):
                pipe = build("sel", (s_, tk, w_), alpha)
                if pipe is not None:
                    bases.append((f"T|sel:{s_}>{tk}>{w_}", Prog(pipe)))
    # consecutive takes that the compiler merges into one LIMIT/OFFSET when they share a SELECT: naming the prefix between
    # them, or putting `filter true` there, forces two SELECTs - both forms must agree
    for s_ in ("sort_asc", "sort_desc2"):
        for tk1 in ("take_open", "take_range", "take_n"):
            for mid in (None, "derive_add", "select_2"):
                for tk2 in ("take_n", "take_range"):
                    seq = (s_, tk1) + ((mid,) if mid else ()) + (tk2,)
                    pipe = build("sel", seq, alpha)
                    if pipe is not None:
                        bases.append(("T|sel:" + ">".join(seq), Prog(pipe)))
    from families import targeted_outer_join_family
    bases += [("T|" + tg, pr) for tg, pr in targeted_outer_join_family() if tg.endswith((":agg", ":group", ":filter"))]
    if tier == "thorough":
        names = ["derive_lit", "filter_and", "filter_halfopen", "derive_halfopen", "sort_asc", "take_n", "group_agg", "join_inner", "win_sum", "select_2", "agg", "group_take", "distinct", "derive_mix", "take_range"]
        bases += [b for b in enumerate_family(3, heads=("sel",), alphabet=alpha, only_names=names) if b[0].count(">") == 2]
    out = []
    rnd2 = random.Random(seed + 7)
    for tag, prog in bases:
        for kind, rw in rewrites_of(prog):
            out.append((f"{tag}|{kind}", (prog, rw, kind)))
            # compositions: a second rewrite of a different kind applied to the rewritten program (DSL-level rewrites
            # only; let-style rewrites are applied last because they rename the prefix)
            if tier == "thorough" and isinstance(rw, Prog) and not rw.lets and not rw.into and rnd2.random() < 0.01:
                for kind2, rw2 in rewrites_of_keep(rw):
                    if kind2.split("@")[0] != kind.split("@")[0]:
                        out.append((f"{tag}|{kind}+{kind2}", (prog, rw2, f"{kind.split('@')[0]}+{kind2}")))
    for tag, prog in bases:
        for kind, b2, r2 in let_twice_pairs(prog):
            out.append((f"{tag}|{kind}", (b2, r2, kind)))
    if tier == "quick":
        rnd = random.Random(seed)
        rnd.shuffle(out)
        # keep every rewrite kind represented, cap the total
        keep, per = [], {}
        for item in out:
            k = item[1][2].split("@")[0]
            if item[0].startswith("T|") and per.get("T|" + k, 0) < 120:
                per["T|" + k] = per.get("T|" + k, 0) + 1          # targeted bases: their own, separate allowance
                keep.append(item)
                continue
            if per.get(k, 0) < 160:
                per[k] = per.get(k, 0) + 1
                keep.append(item)
        out = keep
    return out
