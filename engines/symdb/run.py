"""Parallel runner: maps check functions over a family with one driver process per worker."""
import multiprocessing as mp
import os
import sys
import time
import traceback

HERE = os.path.dirname(os.path.abspath(__file__))
sys.path.insert(0, HERE)
sys.path.insert(0, os.path.join(HERE, "..", "..", "lib"))

_drv = None
_drv_path = None


def _init(path):
    global _drv_path
    _drv_path = path


def driver():
    global _drv
    if _drv is None:
        from core import Driver
        _drv = Driver(_drv_path)
    return _drv


def _work(job):
    fn_name, tag, payload, kw = job
    import symdb
    import checks
    fn = getattr(checks, fn_name)
    t = time.time()
    try:
        o = fn(driver(), payload, **kw)
    except Exception as e:  # engine defect: reported as such, never as pass/violation
        o = symdb.Outcome("error", detail=f"{type(e).__name__}: {e}", trace=traceback.format_exc()[-1500:])
    o.tag = tag
    o.wall = time.time() - t
    return o


def run_jobs(driver_path, jobs, workers=None):
    """jobs: list of (fn_name, tag, payload, kwargs); returns list of Outcome in job order"""
    workers = workers or min(16, os.cpu_count() or 4)
    if workers <= 1 or len(jobs) < 4:
        _init(driver_path)
        return [_work(j) for j in jobs]
    ctx = mp.get_context("fork")
    with ctx.Pool(workers, initializer=_init, initargs=(driver_path,)) as pool:
        return pool.map(_work, jobs, chunksize=max(1, min(16, len(jobs) // (workers * 8) or 1)))
