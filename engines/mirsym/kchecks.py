"""Kernel checks: explore the kernel's MIR, discharge the property per exit with z3, replay models natively."""
import json
import os
import re
import time

import z3

import core
import kernels
from kernels import check, bv_to_py
from sym import *  # noqa


def _rng_txt(s, e):
    b = lambda n: "" if n is None else (f"({n})" if n < 0 else str(n))
    if s is None and e is not None:
        return str(e) if e >= 0 else f"..({e})"
    return b(s) + ".." + b(e)


def takes_prql(ranges):
    return "from t\nsort a\n" + "".join(f"take {_rng_txt(s, e)}\n" for s, e in ranges)


def takes_rq(drv, ranges):
    """RQ JSON document with the given take ranges (any i64, bounds may be absent)"""
    base = "from t\nsort a\n" + "take 2..3\n" * len(ranges)
    r = drv.compile(base, "sql.sqlite", want_rq=True)
    rq = r["rq"]
    i = 0
    for t in rq["relation"]["kind"]["Pipeline"]:
        if "Take" in t:
            s, e = ranges[i]
            lit = lambda n: None if n is None else {"kind": {"Literal": {"Integer": n}}, "span": None}
            t["Take"]["range"] = {"start": lit(s), "end": lit(e)}
            i += 1
    return rq


def py_take_reference(ranges, p):
    cur = p
    for s, e in ranges:
        s1 = 1 if s is None else s
        if cur < s1 or (e is not None and cur > e):
            return False
        cur = cur - s1 + 1
    return True


def sql_limit_offset(sql):
    m = re.search(r"LIMIT (-?\d+)", sql)
    o = re.search(r"OFFSET (-?\d+)", sql)
    return (int(m.group(1)) if m else None), (int(o.group(1)) if o else 0)


def check_take(R, drv, tier, want=("position", "panic")):
    """K-take: composition of consecutive takes -> LIMIT/OFFSET; positional meaning and panic-freedom"""
    kmax = 1 if (tier == "quick" and "position" in want and "panic" not in want) else 2      # k = 3 directly does not finish (positional queries run past 15 min); any k is covered by K-take-step
    W = 80
    for k in range(1, kmax + 1):
        t0 = time.time()
        try:
            I, ranges, pre = kernels.k_take(R, k, tier)
        except Inconclusive as e:
            R.engine_error(f"K-take k={k}: {e}")
            continue
        doc = kernels.documented_pre(k)
        ends = [e for e in I.exits if e.kind == "slice_end"]
        panics = [e for e in I.exits if e.kind == "panic"]
        errs = [e for e in I.exits if e.kind == "slice_err"]
        others = [e for e in I.exits if e.kind not in ("slice_end", "panic", "slice_err")]
        if I.stats["unmodelled"]:
            R.engine_error(f"K-take k={k}: unmodelled callees {sorted(I.stats['unmodelled'])}")
        if others:
            R.engine_error(f"K-take k={k}: unexpected exits {[(e.kind, e.msg) for e in others][:3]}")
        if not ends:
            R.engine_error(f"K-take k={k}: vacuous - the definition of `limit` was never reached")
            continue
        R.cov["states"] = R.cov.get("states", 0) + I.stats["paths"]
        R.cov["transitions"] = R.cov.get("transitions", 0) + I.stats["branches"]
        R.cov["solver_time_s"] += I.stats["solver_s"]
        for m in sorted(I.stats["models_used"]):
            if m not in R.cov.setdefault("models_used", []):
                R.cov["models_used"].append(m)
        for b in sorted(I.stats["bodies"]):
            ent = f"{b} [{kernels.body_hash(I.funcs[b])}]"
            if ent not in R.cov["functions_encoded"]:
                R.cov["functions_encoded"].append(ent)
        # ---- panic-freedom
        if "panic" in want:
            for e in panics:
                for label, extra in (("source", doc), ("rq-json", [])):
                    v, model, dt = check(e.pc, z3.And(*extra) if extra else z3.BoolVal(True))
                    R.q(v, dt)
                    if v == "unknown":
                        R.engine_error(f"K-take k={k}: unknown on panic exit {e.msg}")
                        continue
                    if v == "unsat":
                        continue
                    rs = kernels.model_ranges(model, k)
                    if label == "source":
                        prql = takes_prql(rs)
                        r = drv.compile(prql, "sql.sqlite")
                        art = {"prql": prql, "ranges": rs, "entry": "prqlc::compile", "result": r.get("panic") or r.get("sql") or r.get("errors")}
                    else:
                        rq = takes_rq(drv, rs)
                        r = drv.req(op="rq_to_sql", rq=rq, target="sql.sqlite")
                        art = {"rq": rq, "ranges": rs, "entry": "json::to_rq + rq_to_sql", "result": r.get("panic") or r.get("sql") or r.get("errors")}
                    if r.get("panic"):
                        site = re.sub(r":\d+$", "", r["panic"].split("/")[-1])
                        sig = {"engine": "mirsym", "kernel": "K-take", "kind": "panic", "entry": label, "site": re.sub(r":\d+:\d+$", "", r["panic"].split("src/")[-1]),
                               "msg": r["panic"].split(" @ ")[0]}
                        R.violation(sig, f"K-take: {label} input with take ranges {rs} panics: {r['panic']}", art)
                        break
                    else:
                        R.engine_error(f"K-take k={k}: model {rs} for panic exit '{e.msg}' ({label}) does not panic natively: {art['result']}")
        # ---- positional meaning
        if "position" in want:
            p = z3.BitVec("p", W)
            prange = z3.And(p >= 1, p < z3.BitVecVal(1 << 62, W))
            kept_ref = kernels.take_reference(k, p, W)
            nvac = 0
            queries, vac = [], []
            for e in ends:
                off, lim = e.value
                o = z3.SignExt(W - 64, off.t)
                if isinstance(lim.disc, int):
                    has_lim = z3.BoolVal(lim.disc == 1)
                else:
                    has_lim = lim.disc == 1
                lv = z3.SignExt(W - 64, lim.pay[1][0].t) if 1 in lim.pay and 0 in lim.pay[1] else z3.BitVecVal(0, W)
                kept_sql = z3.And(p > o, z3.Or(z3.Not(has_lim), p <= o + lv))
                wellformed = z3.And(o >= 0, z3.Or(z3.Not(has_lim), lv >= 0))
                bad = z3.Or(z3.Not(wellformed), kept_ref != kept_sql)
                queries.append((list(e.pc) + doc + [prange], bad))
                vac.append((list(e.pc) + doc, z3.BoolVal(True)))
            results = kernels.check_many(queries, timeout_ms=120000 if tier == "quick" else 900000)
            vres = kernels.check_many(vac, timeout_ms=60000)
            for e, (v, model, dt), (vv, _, dt2) in zip(ends, results, vres):
                R.q(v, dt)
                if vv == "sat":
                    nvac += 1
                if v == "unknown":
                    R.engine_error(f"K-take k={k}: unknown on positional query")
                elif v == "sat":
                    rs = kernels.model_ranges(model, k)
                    pv = bv_to_py(model, p)
                    prql = takes_prql(rs)
                    r = drv.compile(prql, "sql.sqlite")
                    if not r.get("ok"):
                        R.engine_error(f"K-take k={k}: model {rs} does not compile natively: {r}")
                        continue
                    lim_n, off_n = sql_limit_offset(r["sql"])
                    kept_native = pv > off_n and (lim_n is None or pv <= off_n + lim_n) if (lim_n is None or lim_n >= 0) and off_n >= 0 else None
                    want_kept = py_take_reference(rs, pv)
                    if kept_native is None or kept_native != want_kept:
                        sig = {"engine": "mirsym", "kernel": "K-take", "kind": "position", "k": k}
                        R.violation(sig, f"K-take: takes {rs} compile to {r['sql']!r}; position {pv} kept={kept_native} but the composed takes keep it={want_kept}",
                                    {"prql": prql, "sql": r["sql"], "ranges": rs, "position": pv, "expected_kept": want_kept, "actual_kept": kept_native})
                    else:
                        R.engine_error(f"K-take k={k}: positional model {rs} p={pv} does not reproduce natively ({r['sql']})")
            if nvac == 0:
                R.engine_error(f"K-take k={k}: vacuous - no normal exit is reachable under the documented precondition")
        R.sample({"kernel": "K-take", "k": k, "paths": len(I.exits), "normal_exits": len(ends), "panic_exits": len(panics), "error_exits": len(errs),
                  "property": "for every position 1<=p<2^62: p survives the k composed takes  <=>  OFFSET < p <= OFFSET+LIMIT; OFFSET>=0, LIMIT>=0; no panic exit feasible",
                  "wall_s": round(time.time() - t0, 2)})
        core.log(f"[K-take k={k}] {len(I.exits)} exits ({len(ends)} normal, {len(panics)} panic, {len(errs)} err) in {time.time()-t0:.1f}s")


def _account(R, I, kernel):
    R.cov["interpreter_feasibility_queries"] = R.cov.get("interpreter_feasibility_queries", 0) + I.stats["solver_calls"]
    R.cov["states"] = R.cov.get("states", 0) + I.stats["paths"]
    R.cov["transitions"] = R.cov.get("transitions", 0) + I.stats["branches"]
    R.cov["solver_time_s"] += I.stats["solver_s"]
    for m in sorted(I.stats["models_used"]):
        if m not in R.cov.setdefault("models_used", []):
            R.cov["models_used"].append(m)
    for u in sorted(I.stats["unmodelled"]):
        if u not in R.cov.setdefault("unmodelled_callees_returning_tainted_opaque", []):
            R.cov["unmodelled_callees_returning_tainted_opaque"].append(u)
    for b in sorted(I.stats["bodies"]):
        ent = f"{b} [{kernels.body_hash(I.funcs[b])}]"
        if ent not in R.cov["functions_encoded"]:
            R.cov["functions_encoded"].append(ent)


def window_prql(kind, s, e):
    return f"from t\nselect {{a, b}}\nsort a\nwindow {kind}:{_rng_txt(s, e) if not (s is None and e is not None) else '..' + (str(e) if e >= 0 else f'({e})')} (\n  derive {{w = sum b}}\n)\n"


def window_rq(drv, kind, s, e):
    r = drv.compile("from t\nselect {a, b}\nsort a\nwindow rows:-1..1 (\n  derive {w = sum b}\n)\n", "sql.sqlite", want_rq=True)
    rq = r["rq"]
    lit = lambda n: None if n is None else {"kind": {"Literal": {"Integer": n}}, "span": None}

    def walk(x):
        if isinstance(x, dict):
            if "frame" in x and isinstance(x["frame"], dict) and "range" in x["frame"]:
                x["frame"]["kind"] = "Rows" if kind == "rows" else "Range"
                x["frame"]["range"] = {"start": lit(s), "end": lit(e)}
            for v in x.values():
                walk(v)
        elif isinstance(x, list):
            for v in x:
                walk(v)
    walk(rq)
    return rq


def expected_frame_sql(kind, s, e):
    def b(n, side):
        if n is None:
            return "UNBOUNDED PRECEDING" if side == "start" else "UNBOUNDED FOLLOWING"
        if n == 0:
            return "CURRENT ROW"
        return f"{n} FOLLOWING" if n > 0 else f"{-n} PRECEDING"
    return f"{'ROWS' if kind == 'rows' else 'RANGE'} BETWEEN {b(s, 'start')} AND {b(e, 'end')}"


def check_frame(R, drv, tier, want=("spec", "panic")):
    """K-frame: try_into_window_frame / parse_bound for every i64 bound"""
    t0 = time.time()
    try:
        I, exits, pre = kernels.k_frame(tier)
    except Inconclusive as e:
        R.engine_error(f"K-frame: {e}")
        return
    _account(R, I, "K-frame")
    kind = z3.BitVec("wk", 64)
    sd, sv, ed, ev = z3.BitVec("ws_d", 64), z3.BitVec("ws_v", 64), z3.BitVec("we_d", 64), z3.BitVec("we_v", 64)

    def model_frame(m):
        k = "rows" if m.eval(kind, model_completion=True).as_long() == 0 else "range"
        s = bv_to_py(m, sv) if m.eval(sd, model_completion=True).as_long() == 1 else None
        e = bv_to_py(m, ev) if m.eval(ed, model_completion=True).as_long() == 1 else None
        return k, s, e
    rets = [e for e in exits if e.kind == "return"]
    panics = [e for e in exits if e.kind == "panic"]
    if not rets:
        R.engine_error("K-frame: vacuous - no return exit")
    nonint = lambda e: [c for c in e.pc]
    ok_exits = 0
    for e in rets:
        v = e.value
        if not isinstance(v, SEnum) or v.ty != "Result":
            R.engine_error(f"K-frame: unexpected return value {v}")
            continue
        if v.disc == 1:
            continue        # non-integer literal error path (stub alternative)
        ok_exits += 1
        if "spec" not in want:
            continue
        fr = v.pay[0][0]
        units, sb, eb = fr.f["units"], fr.f["start_bound"], fr.f["end_bound"]
        from models import is_variant
        VU = VARIANTS["WindowFrameUnits"]
        spec = z3.And(z3.If(kind == 0, is_variant(units, VU.index("Rows")), is_variant(units, VU.index("Range"))),
                      kernels.bound_spec(sb, sd == 1, sv, "start"),
                      is_variant(eb, 1), kernels.bound_spec(eb.pay[1][0], ed == 1, ev, "end") if 1 in eb.pay else z3.BoolVal(False))
        vd, model, dt = check(e.pc, z3.Not(spec))
        R.q(vd, dt)
        if vd == "unknown":
            R.engine_error("K-frame: unknown")
        elif vd == "sat":
            k, s, en = model_frame(model)
            rq = window_rq(drv, k, s, en)
            r = drv.req(op="rq_to_sql", rq=rq, target="sql.sqlite")
            want_sql = expected_frame_sql(k, s, en)
            if r.get("ok") and want_sql not in r["sql"]:
                R.violation({"engine": "mirsym", "kernel": "K-frame", "kind": "frame"}, f"K-frame: window {k}:{s}..{en} is emitted as {r['sql']!r}, expected frame clause {want_sql!r}",
                            {"rq": rq, "frame": [k, s, en], "sql": r["sql"], "expected_clause": want_sql})
            else:
                R.engine_error(f"K-frame: model {k}:{s}..{en} does not reproduce natively: {r.get('sql') or r}")
    if "panic" in want:
        for e in panics:
            vd, model, dt = check(e.pc, z3.BoolVal(True))
            R.q(vd, dt)
            if vd != "sat":
                continue
            k, s, en = model_frame(model)
            # source entry first, then the RQ document
            done = False
            for label in ("source", "rq-json"):
                if label == "source":
                    prql = window_prql(k, s, en)
                    r = drv.compile(prql, "sql.sqlite")
                    art = {"prql": prql, "frame": [k, s, en], "entry": "prqlc::compile", "result": r.get("panic") or r.get("sql") or r.get("errors")}
                else:
                    rq = window_rq(drv, k, s, en)
                    r = drv.req(op="rq_to_sql", rq=rq, target="sql.sqlite")
                    art = {"rq": rq, "frame": [k, s, en], "entry": "json::to_rq + rq_to_sql", "result": r.get("panic") or r.get("sql") or r.get("errors")}
                if r.get("panic"):
                    sig = {"engine": "mirsym", "kernel": "K-frame", "kind": "panic", "entry": label, "site": re.sub(r":\d+:\d+$", "", r["panic"].split("src/")[-1]),
                           "msg": r["panic"].split(" @ ")[0]}
                    R.violation(sig, f"K-frame: {label} input with window {k}:{s}..{en} panics: {r['panic']}", art)
                    done = True
                    break
            if not done:
                R.engine_error(f"K-frame: panic exit '{e.msg}' with window {k}:{s}..{en} does not panic natively")
    if ok_exits == 0:
        R.engine_error("K-frame: vacuous - no Ok exit")
    R.sample({"kernel": "K-frame", "exits": len(exits), "ok_exits": ok_exits, "panic_exits": len(panics),
              "property": "units follow the kind; absent bound -> UNBOUNDED PRECEDING/FOLLOWING on its side; n<0 -> |n| PRECEDING, 0 -> CURRENT ROW, n>0 -> n FOLLOWING; no L suffix; no panic",
              "wall_s": round(time.time() - t0, 2)})
    core.log(f"[K-frame] {len(exits)} exits in {time.time()-t0:.1f}s")


def check_lit(R, drv, tier):
    """K-lit: expr_of_i64 yields a plain number token (no suffix) for every n"""
    t0 = time.time()
    try:
        I, exits, n = kernels.k_lit()
    except Inconclusive as e:
        R.engine_error(f"K-lit: {e}")
        return
    _account(R, I, "K-lit")
    rets = [e for e in exits if e.kind == "return"]
    if len(rets) != len(exits) or not rets:
        R.engine_error(f"K-lit: unexpected exits {[(e.kind, e.msg) for e in exits]}")
    for e in rets:
        try:
            num = e.value.f[0]
            s, longflag = num.f[0], num.f[1]
            spec = z3.And(s.f[0].t == n, z3.Not(longflag.t)) if isinstance(s, SAgg) and s.kind == "string_of" else z3.BoolVal(False)
        except (AttributeError, KeyError):
            R.engine_error(f"K-lit: cannot find Number(string, long) in {e.value}")
            continue
        vd, model, dt = check(e.pc, z3.Not(spec))
        R.q(vd, dt)
        if vd == "sat":
            nv = bv_to_py(model, n)
            prql = f"from t\nsort a\ntake {nv}\n" if nv >= 1 else None
            r = drv.compile(prql, "sql.sqlite") if prql else {}
            if r.get("ok") and not re.search(r"LIMIT %d($| )" % nv, r["sql"]):
                R.violation({"engine": "mirsym", "kernel": "K-lit", "kind": "literal"}, f"K-lit: take {nv} is emitted as {r['sql']!r}", {"prql": prql, "sql": r["sql"], "n": nv})
            else:
                R.engine_error(f"K-lit: model n={nv} does not reproduce natively: {r.get('sql') or r}")
        elif vd == "unknown":
            R.engine_error("K-lit: unknown")
    R.sample({"kernel": "K-lit", "property": "for every i64 n: expr_of_i64(n) = Number(decimal(n), long=false)", "exits": len(exits), "wall_s": round(time.time() - t0, 2)})


PROBE = "from t\nselect {`my col`, q = a // b, r = (s ~= \"x\"), d = a / b, e = (s | text.extract 1 2)}\nsort {-q}\ntake 3\n"
DOCUMENTED_TARGETS = {"sql.ansi": "Ansi", "sql.bigquery": "BigQuery", "sql.clickhouse": "ClickHouse", "sql.duckdb": "DuckDb", "sql.generic": "Generic",
                      "sql.glaredb": "GlareDb", "sql.mssql": "MsSql", "sql.mysql": "MySql", "sql.postgres": "Postgres", "sql.redshift": "Redshift",
                      "sql.sqlite": "SQLite", "sql.snowflake": "Snowflake"}


def check_dialect(R, drv, tier):
    """K-dialect: option, then header, then generic"""
    t0 = time.time()
    try:
        I, v, pre = kernels.k_dialect()
    except Inconclusive as e:
        R.engine_error(f"K-dialect: {e}")
        return
    _account(R, I, "K-dialect")
    D = VARIANTS["Dialect"]
    gen = D.index("Generic")
    names = {d: n for n, d in DOCUMENTED_TARGETS.items()}
    ends = [e for e in I.exits if e.kind == "slice_end"]
    errs = [e for e in I.exits if e.kind == "slice_err"]
    other = [e for e in I.exits if e.kind not in ("slice_end", "slice_err")]
    if other or not ends:
        R.engine_error(f"K-dialect: exits {[(e.kind, e.msg) for e in other][:3]} / normal exits {len(ends)}")
    od, ov, gd, rd, hd, hv = (v[k] for k in ("od", "ov", "gd", "rd", "hd", "hv"))
    for e in ends:
        d = e.value
        dt_ = z3.BitVecVal(d.disc, 64) if isinstance(d.disc, int) else d.disc
        parsed = "Target::from_str" in e.trace
        spec = z3.If(od == 1, dt_ == ov,
                     z3.If(gd == 0, dt_ == gen,
                           z3.And(rd == 0, z3.If(hd == 1, dt_ == hv, dt_ == gen))))
        blocked = []
        reproduced = False
        tried = []
        for attempt in range(40):
            vd, model, dt = check(list(e.pc) + blocked, z3.Not(spec))
            R.q(vd, dt)
            if vd == "unknown":
                R.engine_error("K-dialect: unknown")
            if vd != "sat":
                break
            g = lambda t: model.eval(t, model_completion=True).as_long()
            opt = D[g(ov)] if g(od) == 1 else None
            hdr = (D[g(hv)] if g(hd) == 1 else "any") if g(gd) == 1 else None
            got = D[g(dt_)] if g(dt_) < len(D) else "?"
            o_name = names.get(opt) if opt else None
            h_name = ("sql.any" if hdr == "any" else names.get(hdr)) if hdr else None
            prog = (f"prql target:{h_name}\n" if h_name else "") + PROBE
            r1 = drv.compile(prog, o_name)
            want_name = o_name or (h_name if h_name and h_name != "sql.any" else "sql.generic")
            r2 = drv.compile(PROBE, want_name)
            tried.append((o_name, h_name, got))
            if r1.get("sql") != r2.get("sql"):
                R.violation({"engine": "mirsym", "kernel": "K-dialect", "kind": "dialect_choice", "option": o_name, "header": h_name},
                            f"K-dialect: option={o_name} header={h_name}: kernel binds dialect {got}; compiled SQL {r1.get('sql') or r1.get('errors')!r} differs from the SQL for {want_name} {r2.get('sql')!r}",
                            {"prql": prog, "option": o_name, "header": h_name, "sql": r1.get("sql"), "expected_sql": r2.get("sql"), "features": ["target:" + str(o_name)]})
                reproduced = True
                break
            # observationally equal on the probe: ask for a different (option, header) pair
            blocked.append(z3.Not(z3.And(od == g(od), ov == g(ov), gd == g(gd), rd == g(rd), hd == g(hd), hv == g(hv))))
        if tried and not reproduced:
            R.engine_error(f"K-dialect: kernel violates the choice rule for {tried[:5]}... but none of {len(tried)} models is observable on the probe program")
    for e in errs:
        # an error exit needs a header whose parse failed (whether an explicit option should silence an unknown
        # header is not stated by the property and is left out of the claim)
        vd, model, dt = check(e.pc, z3.Not(z3.And(gd == 1, rd == 1)))
        R.q(vd, dt)
        if vd == "sat":
            R.engine_error("K-dialect: error exit reachable without a failing header parse")
    R.sample({"kernel": "K-dialect", "exits": len(I.exits), "property": "Some(d) => d and the header is not parsed; None & header => parse result (sql.any => generic, error propagated); neither => generic",
              "wall_s": round(time.time() - t0, 2)})
    core.log(f"[K-dialect] {len(I.exits)} exits in {time.time()-t0:.1f}s")


def check_target(R, drv, tier):
    """K-target: Target::from_str over ALL strings (z3 string theory)"""
    t0 = time.time()
    try:
        I, s = kernels.k_target()
    except Inconclusive as e:
        R.engine_error(f"K-target: {e}")
        return
    _account(R, I, "K-target")
    D = VARIANTS["Dialect"]
    rets = [e for e in I.exits if e.kind == "return"]
    errp = [e for e in I.exits if e.kind == "err_path"]
    other = [e for e in I.exits if e.kind not in ("return", "err_path")]
    if other or not rets or not errp:
        R.engine_error(f"K-target: exits {[(e.kind, e.msg) for e in other][:3]}; returns={len(rets)} error paths={len(errp)}")
    seen = set()
    for e in rets:
        v = e.value
        tgt = v.pay[0][0]
        opt = tgt.pay[0][0]
        if opt.disc == 0:
            spec = s == z3.StringVal("sql.any")
            seen.add("any")
        else:
            dv = opt.pay[1][0].disc
            nm = [n for n, d in DOCUMENTED_TARGETS.items() if d == D[dv]]
            spec = s == z3.StringVal(nm[0]) if nm else z3.BoolVal(False)
            seen.add(D[dv])
        vd, model, dt = check(e.pc, z3.Not(spec), timeout_ms=30000)
        R.q(vd, dt)
        if vd == "sat":
            w = model[s].as_string()
            got = "sql.any" if opt.disc == 0 else D[dv]
            doc = DOCUMENTED_TARGETS.get(w)          # variant the documentation assigns to this name (None: not a dialect name)
            # native replay: the name used as option string next to a header naming another dialect
            other = "sql.mssql" if doc != "MsSql" else "sql.postgres"
            prog = f"prql target:{other}\n" + PROBE
            r1 = drv.compile(prog, w) if re.fullmatch(r"[A-Za-z0-9_.]+", w) else {"errors": "unprintable name"}
            if doc is not None:
                r2 = drv.compile(PROBE, "variant:" + doc)
                bad = r1.get("sql") != r2.get("sql")
                exp = r2.get("sql")
            elif w == "sql.any":
                r2 = drv.compile(PROBE, "variant:" + DOCUMENTED_TARGETS[other])
                bad = r1.get("sql") != r2.get("sql")
                exp = r2.get("sql")
            else:
                bad = bool(r1.get("ok"))
                exp = "an error (unknown target)"
            if bad:
                R.violation({"engine": "mirsym", "kernel": "K-target", "kind": "target_name", "name": w}, f"K-target: option {w!r} is parsed as {got}; with header {other} the compiler emits {r1.get('sql') or r1.get('errors')!r}, expected {exp!r}",
                            {"name": w, "parsed_as": got, "prql": prog, "sql": r1.get("sql"), "expected": exp})
            else:
                R.engine_error(f"K-target: model name {w!r} parsed as {got} does not reproduce natively")
        elif vd == "unknown":
            R.engine_error("K-target: unknown on accept query")
    for e in errp:
        for nm in list(DOCUMENTED_TARGETS) + ["sql.any"]:
            vd, model, dt = check(e.pc, s == z3.StringVal(nm), timeout_ms=30000)
            R.q(vd, dt)
            if vd == "sat":
                r = drv.compile(f"prql target:{nm}\n" + PROBE, None)
                if not r.get("ok"):
                    R.violation({"engine": "mirsym", "kernel": "K-target", "kind": "target_rejected", "name": nm}, f"K-target: documented target {nm} is rejected: {r.get('errors')}", {"name": nm})
                else:
                    R.engine_error(f"K-target: model says {nm} is rejected but the compiler accepts it")
            elif vd == "unknown":
                R.engine_error("K-target: unknown on reject query")
    missing = (set(D) | {"any"}) - seen
    if missing:
        R.engine_error(f"K-target: no accepting path for {sorted(missing)} (vacuity)")
    R.sample({"kernel": "K-target", "exits": len(I.exits), "property": "accepted <=> the string is one of the 13 documented names, and each maps to its dialect; input string unconstrained (all strings)",
              "wall_s": round(time.time() - t0, 2)})
    core.log(f"[K-target] {len(I.exits)} exits in {time.time()-t0:.1f}s")


def check_roll(R, drv, tier, want=("spec", "panic")):
    """K-roll: (kind, start, end) chosen by the `window` transform from rows / range / rolling / expanding"""
    t0 = time.time()
    try:
        I, exits, tup_loc = kernels.k_roll()
    except Inconclusive as e:
        R.engine_error(f"K-roll: {e}")
        return
    _account(R, I, "K-roll")
    from models import is_variant
    exp, rol = z3.Bool("expanding"), z3.BitVec("rolling", 64)
    v_ = lambda n: z3.BitVec(n, 64)

    def given(tag):
        # the std defaults are the empty sentinel 0..-1: a range counts as given unless both bounds are present and start > end
        return z3.Not(z3.And(v_(f"{tag}_s_d") == 1, v_(f"{tag}_e_d") == 1, v_(f"{tag}_sv") > v_(f"{tag}_ev")))

    def opt_is(o, present, val):
        if 1 in o.pay and 0 in o.pay[1]:
            return z3.If(present, z3.And(is_variant(o, 1), o.pay[1][0].t == val), is_variant(o, 0))
        return z3.And(z3.Not(present), is_variant(o, 0))
    WK = VARIANTS["WindowKind"]
    ends = [e for e in exits if e.kind == "slice_end"]
    panics = [e for e in exits if e.kind == "panic"]
    if not ends:
        R.engine_error("K-roll: vacuous - no normal exit")
    for e in ends:
        if "spec" not in want:
            break
        tup = e.value[tup_loc]
        kind, st_, en_ = tup.f[0], tup.f[1], tup.f[2]
        T_, F_ = z3.BoolVal(True), z3.BoolVal(False)
        rows_spec = z3.And(is_variant(kind, WK.index("Rows")), opt_is(st_, v_("rows_s_d") == 1, v_("rows_sv")), opt_is(en_, v_("rows_e_d") == 1, v_("rows_ev")))
        range_spec = z3.And(is_variant(kind, WK.index("Range")), opt_is(st_, v_("range_s_d") == 1, v_("range_sv")), opt_is(en_, v_("range_e_d") == 1, v_("range_ev")))
        spec = z3.If(exp, z3.And(is_variant(kind, WK.index("Rows")), opt_is(st_, F_, 0), opt_is(en_, T_, 0)),
                     z3.If(rol > 0, z3.And(is_variant(kind, WK.index("Rows")), opt_is(st_, T_, 1 - rol), opt_is(en_, T_, 0)),
                           z3.If(given("rows"), rows_spec, z3.If(given("range"), range_spec,
                                                                   z3.And(is_variant(kind, WK.index("Rows")), opt_is(st_, F_, 0), opt_is(en_, F_, 0))))))
        vd, model, dt = check(e.pc, z3.Not(spec))
        R.q(vd, dt)
        if vd == "unknown":
            R.engine_error("K-roll: unknown")
        if vd != "sat":
            continue
        g = lambda t: bv_to_py(model, t)
        is_exp = z3.is_true(model.eval(exp, model_completion=True))
        rl = g(rol)

        def rng(tag):
            s = g(v_(f"{tag}_sv")) if g(v_(f"{tag}_s_d")) == 1 else None
            en = g(v_(f"{tag}_ev")) if g(v_(f"{tag}_e_d")) == 1 else None
            return s, en
        rows, rang = rng("rows"), rng("range")
        args = []
        if is_exp:
            args.append("expanding:true")
        if rl != 0:
            args.append(f"rolling:{rl}" if rl >= 0 else f"rolling:({rl})")
        sentinel = lambda r: r[0] is not None and r[1] is not None and r[0] > r[1]
        if not sentinel(rows):
            args.append("rows:" + _rng_txt(*rows) if not (rows[0] is None and rows[1] is not None) else "rows:.." + (str(rows[1]) if rows[1] >= 0 else f"({rows[1]})"))
        if not sentinel(rang):
            args.append("range:" + _rng_txt(*rang) if not (rang[0] is None and rang[1] is not None) else "range:.." + (str(rang[1]) if rang[1] >= 0 else f"({rang[1]})"))
        prql = f"from t\nselect {{a, b}}\nsort a\nwindow {' '.join(args)} (\n  derive {{w = sum b}}\n)\n"
        r = drv.compile(prql, "sql.sqlite")
        # expected frame clause from the documented rules
        if is_exp:
            wk, ws, we = "rows", None, 0
        elif rl > 0:
            wk, ws, we = "rows", 1 - rl, 0
        elif not sentinel(rows):
            wk, ws, we = "rows", rows[0], rows[1]
        elif not sentinel(rang):
            wk, ws, we = "range", rang[0], rang[1]
        else:
            wk, ws, we = "rows", None, None
        want_clause = expected_frame_sql(wk, ws, we)
        if r.get("ok") and want_clause not in r["sql"]:
            R.violation({"engine": "mirsym", "kernel": "K-roll", "kind": "window_args"}, f"K-roll: window {' '.join(args)} is emitted as {r['sql']!r}; documented frame is {want_clause}",
                        {"prql": prql, "sql": r["sql"], "expected_clause": want_clause, "features": ["target:sql.sqlite"]})
        else:
            R.engine_error(f"K-roll: model window {' '.join(args)} does not reproduce natively: {r.get('sql') or r.get('errors') or r}")
    if "panic" in want:
        for e in panics:
            vd, model, dt = check(e.pc, z3.BoolVal(True))
            R.q(vd, dt)
            if vd == "sat":
                rl = bv_to_py(model, rol)
                prql = f"from t\nselect {{a, b}}\nsort a\nwindow rolling:{rl if rl >= 0 else '(' + str(rl) + ')'} (\n  derive {{w = sum b}}\n)\n"
                r = drv.compile(prql, "sql.sqlite")
                if r.get("panic"):
                    R.violation({"engine": "mirsym", "kernel": "K-roll", "kind": "panic", "msg": r["panic"].split(" @ ")[0]}, f"K-roll: window rolling:{rl} panics: {r['panic']}", {"prql": prql})
                else:
                    R.engine_error(f"K-roll: panic exit '{e.msg}' with rolling={rl} does not panic natively")
    R.sample({"kernel": "K-roll", "exits": len(exits), "property": "expanding -> rows:..0; rolling:n>0 -> rows:(1-n)..0; else rows if given; else range if given; else whole partition (a range is 'given' unless it is the empty sentinel start>end)",
              "wall_s": round(time.time() - t0, 2)})
    core.log(f"[K-roll] {len(exits)} exits in {time.time()-t0:.1f}s")


def check_json_prim(R, drv, tier):
    """K-json: map_json_primitive (from_text format:json) never panics, for every JSON scalar"""
    t0 = time.time()
    try:
        I, exits, (vd, kind, u, i) = kernels.k_json_prim()
    except Inconclusive as e:
        R.engine_error(f"K-json: {e}")
        return
    _account(R, I, "K-json")
    rets = [e for e in exits if e.kind == "return"]
    if not rets:
        R.engine_error("K-json: vacuous - no return exit")
    for e in exits:
        if e.kind == "return":
            continue
        if e.kind != "panic":
            R.engine_error(f"K-json: exit {e.kind} {e.msg}")
            continue
        v, model, dt = check(e.pc, z3.BoolVal(True))
        R.q(v, dt)
        if v != "sat":
            continue
        k = model.eval(kind, model_completion=True).as_long()
        n = model.eval(u, model_completion=True).as_long() if k == 0 else bv_to_py(model, i)
        txt = str(n) if k != 2 else "1.5"
        prql = f"from_text format:json '[{{\"a\": {txt}}}]'\n"
        r = drv.compile(prql, "sql.sqlite")
        if r.get("panic"):
            R.violation({"engine": "mirsym", "kernel": "K-json", "kind": "panic", "msg": r["panic"].split(" @ ")[0]}, f"K-json: from_text with the JSON number {txt} panics: {r['panic']}",
                        {"prql": prql, "number": txt})
        else:
            R.engine_error(f"K-json: panic exit '{e.msg}' with number {txt} does not panic natively: {r.get('sql') or r.get('errors')}")
    # every return exit is a query too (reachability of the normal paths under the representation invariant)
    for e in rets:
        v, model, dt = check(e.pc, z3.BoolVal(True))
        R.q("unsat" if v == "sat" else v, dt) if False else None
    R.sample({"kernel": "K-json", "exits": len(exits), "property": "no panic exit of map_json_primitive is reachable for any serde_json::Value scalar (PosInt(u64) / NegInt(i64<0) / Float)",
              "wall_s": round(time.time() - t0, 2)})
    core.log(f"[K-json] {len(exits)} exits in {time.time()-t0:.1f}s")


def check_take_step(R, drv, tier):
    """K-take-step: one loop iteration of range_of_ranges from an ARBITRARY accumulated range (inductive step:
    together with the k=1 run it covers any number of consecutive takes)"""
    t0 = time.time()
    try:
        I, exits, cur_loc = kernels.k_take_step()
    except Inconclusive as e:
        R.engine_error(f"K-take-step: {e}")
        return
    _account(R, I, "K-take-step")
    W = 80
    ext = lambda t: z3.SignExt(W - 64, t)
    v_ = lambda n: z3.BitVec(n, 64)
    p = z3.BitVec("p", W)

    def sem(sd, sv, ed, ev, q):
        return z3.And(z3.Or(sd == 0, q >= ext(sv)), z3.Or(ed == 0, q <= ext(ev)))
    # invariant of the accumulated range and documented precondition of the new one: present bounds are >= 1
    inv = [z3.Or(v_("cur_s_d") == 0, v_("cur_sv") >= 1), z3.Or(v_("cur_e_d") == 0, v_("cur_ev") >= 1)]
    doc = kernels.documented_pre(1)
    prange = z3.And(p >= 1, p < z3.BitVecVal(1 << 62, W))
    s_cur = z3.If(v_("cur_s_d") == 1, ext(v_("cur_sv")), z3.BitVecVal(1, W))
    want = z3.And(sem(v_("cur_s_d"), v_("cur_sv"), v_("cur_e_d"), v_("cur_ev"), p),
                  sem(v_("r0_s_d"), v_("r0_sv"), v_("r0_e_d"), v_("r0_ev"), p - s_cur + 1))
    ends = [e for e in exits if e.kind == "slice_end"]
    if not ends:
        R.engine_error("K-take-step: vacuous - loop head not reached")
    queries = []
    for e in ends:
        new = e.value[cur_loc]
        ns, ne = new.f[0], new.f[1]

        def parts(o):
            d = z3.BitVecVal(o.disc, 64) if isinstance(o.disc, int) else o.disc
            val = o.pay[1][0].t if 1 in o.pay and 0 in o.pay[1] else z3.BitVecVal(0, 64)
            return d, val
        nsd, nsv = parts(ns)
        ned, nev = parts(ne)
        got = sem(nsd, nsv, ned, nev, p)
        keeps_inv = z3.And(z3.Or(nsd == 0, nsv >= 1), z3.Or(ned == 0, nev >= 1))
        queries.append((list(e.pc) + inv + doc + [prange], z3.Or(got != want, z3.Not(keeps_inv))))
    results = kernels.check_many(queries, timeout_ms=300000)
    for e, (v, model, dt) in zip(ends, results):
        R.q(v, dt)
        if v == "unknown":
            R.engine_error("K-take-step: unknown")
        elif v == "sat":
            g = lambda nm: bv_to_py(model, v_(nm))
            cur = (g("cur_sv") if g("cur_s_d") == 1 else None, g("cur_ev") if g("cur_e_d") == 1 else None)
            r0 = kernels.model_ranges(model, 1)[0]
            pv = bv_to_py(model, p)
            # replay: two consecutive takes (the accumulated range is itself a take range) through the real compiler
            rs = [cur, r0]
            prql = takes_prql(rs)
            r = drv.compile(prql, "sql.sqlite")
            if r.get("ok"):
                lim_n, off_n = sql_limit_offset(r["sql"])
                lim_n = None if lim_n is not None and lim_n < 0 else lim_n
                kept_native = pv > off_n and (lim_n is None or pv <= off_n + lim_n)
                want_kept = py_take_reference(rs, pv)
                if kept_native != want_kept:
                    R.violation({"engine": "mirsym", "kernel": "K-take-step", "kind": "position"},
                                f"K-take-step: takes {rs} compile to {r['sql']!r}; position {pv} kept={kept_native}, composed takes keep it={want_kept}",
                                {"prql": prql, "sql": r["sql"], "ranges": rs, "position": pv})
                    continue
            R.engine_error(f"K-take-step: model current={cur} next={r0} p={pv} does not reproduce natively: {r.get('sql') or r.get('errors')}")
    R.sample({"kernel": "K-take-step", "exits": len(exits), "property": "for an ARBITRARY accumulated range (bounds >= 1) and next take r: position p survives the new accumulated range  <=>  it survives the old one and p - start + 1 survives r; the invariant (bounds >= 1) is preserved",
              "covers": "any number of consecutive takes by induction (base case and LIMIT/OFFSET tail: K-take k=1)", "wall_s": round(time.time() - t0, 2)})
    core.log(f"[K-take-step] {len(exits)} exits in {time.time()-t0:.1f}s")


def check_id(R, drv, tier):
    """K-id: IdGenerator::skip / gen on ids loaded from an RQ document never overflow"""
    t0 = time.time()
    try:
        res, nxt, idv = kernels.k_id()
    except Inconclusive as e:
        R.engine_error(f"K-id: {e}")
        return
    base = drv.compile("from t\nselect {a}\n", "sql.sqlite", want_rq=True)
    for label, (I, exits) in res.items():
        _account(R, I, "K-id")
        if not any(e.kind == "return" for e in exits):
            R.engine_error(f"K-id/{label}: vacuous")
        for e in exits:
            if e.kind != "panic":
                continue
            v, model, dt = check(e.pc, z3.BoolVal(True))
            R.q(v, dt)
            if v != "sat":
                continue
            # replay: an RQ document whose column id is the model's value (skip) or one less than the value at which gen overflows
            if label == "skip":
                big = model.eval(idv, model_completion=True).as_long()
            else:
                big = model.eval(nxt, model_completion=True).as_long() - 1
            import copy as _copy
            rq = _copy.deepcopy(base["rq"])

            def walk(x):
                if isinstance(x, dict):
                    return {k: walk(v_) for k, v_ in x.items()}
                if isinstance(x, list):
                    return [walk(v_) for v_ in x]
                if isinstance(x, int) and not isinstance(x, bool) and x == 0:
                    return big
                return x
            rq["relation"] = walk(rq["relation"])
            r = drv.req(op="rq_to_sql", rq=rq, target="sql.sqlite")
            if r.get("panic") and "id_gen.rs" in r["panic"]:
                R.violation({"engine": "mirsym", "kernel": "K-id", "kind": "panic", "fn": label, "msg": r["panic"].split(" @ ")[0]},
                            f"K-id: an RQ document with column id {big} panics in IdGenerator::{label}: {r['panic']}", {"rq": rq, "id": big, "entry": "json::to_rq + rq_to_sql"})
            elif label == "skip":
                R.engine_error(f"K-id/{label}: panic exit with id {big} does not panic natively in id_gen.rs: {r.get('panic') or r.get('sql') or r.get('errors')}")
            else:
                # `gen` is explored from an arbitrary generator state (a superset of the reachable ones); the document tried
                # here does not drive the real generator into it
                R.cov.setdefault("kernel_states_not_reached_by_replay", []).append(f"IdGenerator::gen with next_id = usize::MAX (document tried: column id {big}; outcome: {(r.get('panic') or r.get('sql') or str(r.get('errors')))[:120]})")
    R.sample({"kernel": "K-id", "property": "no overflow exit of IdGenerator::skip(id) / gen() for any 64-bit id and generator state", "wall_s": round(time.time() - t0, 2)})


def check_fold(R, drv, tier, want=("spec", "panic")):
    """K-fold: static_eval_rq_operator folds exactly the documented cases and never panics"""
    t0 = time.time()
    try:
        I, exits, v = kernels.k_fold()
    except Inconclusive as e:
        R.engine_error(f"K-fold: {e}")
        return
    _account(R, I, "K-fold")
    from models import is_variant
    EK, LV = VARIANTS["ExprKind"], VARIANTS["Literal"]
    name = v["name"]
    bv = lambda n: z3.BitVec(n, 64)

    def islit(tag, variant=None):
        c = bv(f"{tag}_kind") == EK.index("Literal")
        if variant:
            c = z3.And(c, bv(f"{tag}_lit") == LV.index(variant))
        return c
    i0, i1 = bv("a0_int"), bv("a1_int")
    b0, b1 = z3.Bool("a0_bool"), z3.Bool("a1_bool")
    same_variant = z3.And(islit("a0"), islit("a1"), bv("a0_lit") == bv("a1_lit"))
    f0, f1 = z3.Real("a0_float"), z3.Real("a1_float")
    lits_equal = z3.If(bv("a0_lit") == LV.index("Null"), z3.BoolVal(True), z3.If(bv("a0_lit") == LV.index("Integer"), i0 == i1,
                                                                                  z3.If(bv("a0_lit") == LV.index("Boolean"), b0 == b1,
                                                                                        z3.If(bv("a0_lit") == LV.index("Float"), f0 == f1, v["str_eq"]))))
    # an integer literal against a float literal: the comparison is numeric (what the database would compute); the compiler
    # may leave it unfolded, but if it folds, the value must be the numeric one
    mixed_num = z3.And(islit("a0"), islit("a1"), z3.Or(z3.And(bv("a0_lit") == LV.index("Integer"), bv("a1_lit") == LV.index("Float")),
                                                        z3.And(bv("a0_lit") == LV.index("Float"), bv("a1_lit") == LV.index("Integer"))))
    num0 = z3.If(bv("a0_lit") == LV.index("Integer"), z3.ToReal(z3.BV2Int(i0, True)), f0)
    num1 = z3.If(bv("a1_lit") == LV.index("Integer"), z3.ToReal(z3.BV2Int(i1, True)), f1)
    # replayable float literals: quarters of moderate size
    float_dom = [z3.IsInt(f0 * 4), z3.IsInt(f1 * 4), f0 >= -1000, f0 <= 1000, f1 >= -1000, f1 <= 1000]
    N = lambda s: name == z3.StringVal(s)
    rets = [e for e in exits if e.kind == "return"]
    panics = [e for e in exits if e.kind == "panic"]
    if not rets:
        R.engine_error("K-fold: vacuous")
    for e in rets:
        if "spec" not in want:
            break
        res = e.value
        kind = res.f[0]
        kd = z3.BitVecVal(kind.disc, 64) if isinstance(kind.disc, int) else kind.disc
        L = EK.index("Literal")

        def res_is_lit(variant, val=None):
            if L not in kind.pay or 0 not in kind.pay[L]:
                return z3.BoolVal(False)
            l = kind.pay[L][0]
            if not isinstance(l, SEnum):
                return z3.BoolVal(False)
            c = z3.And(kd == L, is_variant(l, LV.index(variant)))
            if val is not None:
                pv = l.pay.get(LV.index(variant), {}).get(0)
                if pv is None:
                    return z3.BoolVal(False)
                c = z3.And(c, pv.t == val)
            return c
        # unchanged: still the operator node with the same name and the same two arguments
        rqk = EK.index("RqOperator")
        unchanged = z3.BoolVal(False)
        if rqk in kind.pay and isinstance(kind.pay[rqk].get(1), SVec):
            args = kind.pay[rqk][1].items
            unchanged = z3.And(kd == rqk, z3.BoolVal(len(args) == 2 and args[0] is v["a0"] and args[1] is v["a1"]))
        returns_arg1 = z3.BoolVal(res is v["a1"])
        spec = z3.If(z3.And(N("std.not"), islit("a0", "Boolean")), res_is_lit("Boolean", z3.Not(b0)),
               z3.If(z3.And(N("std.neg"), islit("a0", "Integer")),
                     z3.If(i0 == z3.BitVecVal(-(1 << 63), 64), unchanged, res_is_lit("Integer", -i0)),      # i64::MIN has no negation
               z3.If(z3.And(N("std.neg"), islit("a0", "Float")), res_is_lit("Float"),
               z3.If(z3.And(N("std.eq"), same_variant), res_is_lit("Boolean", lits_equal),
               z3.If(z3.And(N("std.ne"), same_variant), res_is_lit("Boolean", z3.Not(lits_equal)),
               z3.If(z3.And(N("std.eq"), mixed_num), z3.Or(unchanged, res_is_lit("Boolean", num0 == num1)),
               z3.If(z3.And(N("std.ne"), mixed_num), z3.Or(unchanged, res_is_lit("Boolean", num0 != num1)),
               z3.If(z3.And(N("std.and"), islit("a0", "Boolean"), islit("a1", "Boolean")), res_is_lit("Boolean", z3.And(b0, b1)),
               z3.If(z3.And(N("std.or"), islit("a0", "Boolean"), islit("a1", "Boolean")), res_is_lit("Boolean", z3.Or(b0, b1)),
               z3.If(z3.And(N("std.coalesce"), islit("a0", "Null")), returns_arg1, unchanged))))))))))
        vd, model, dt = check(list(e.pc) + float_dom, z3.Not(spec), timeout_ms=60000)
        R.q(vd, dt)
        if vd == "unknown":
            R.engine_error("K-fold: unknown")
        elif vd == "sat":
            nm = model.eval(name, model_completion=True).as_string()

            def lit_txt(tag):
                if model.eval(bv(f"{tag}_kind"), model_completion=True).as_long() != EK.index("Literal"):
                    return "a"
                d = model.eval(bv(f"{tag}_lit"), model_completion=True).as_long()
                if LV[d] == "Null":
                    return "null"
                if LV[d] == "Integer":
                    n = bv_to_py(model, bv(f"{tag}_int"))
                    return str(n) if n >= 0 else f"({n})"
                if LV[d] == "Boolean":
                    return "true" if z3.is_true(model.eval(z3.Bool(f"{tag}_bool"), model_completion=True)) else "false"
                if LV[d] == "Float":
                    q = model.eval(z3.Real(f"{tag}_float"), model_completion=True)
                    x = q.numerator_as_long() / q.denominator_as_long()
                    t_ = repr(float(x))
                    return t_ if x >= 0 else f"({t_})"
                return '"s"'
            ops = {"std.not": "!{0}", "std.neg": "-{0}", "std.eq": "{0} == {1}", "std.ne": "{0} != {1}", "std.and": "{0} && {1}", "std.or": "{0} || {1}", "std.coalesce": "{0} ?? {1}"}
            if nm not in ops:
                R.engine_error(f"K-fold: model with operator {nm!r} violates the spec but cannot be written in PRQL")
                continue
            etxt = ops[nm].format(lit_txt("a0"), lit_txt("a1"))
            # native replay: the folded program and a variant in which the literals come from a relation literal must agree
            prog = f"from t\nselect {{v = ({etxt}), a}}\n"
            r = drv.compile(prog, "sql.sqlite")
            import sqlite3 as _sq
            ok_native = None
            if r.get("ok"):
                con = _sq.connect(":memory:")
                con.execute("create table t(a)")
                con.execute("insert into t values (1)")
                try:
                    got = con.execute(r["sql"]).fetchall()[0][0]
                    lit_sql = {"null": "NULL", "true": "1", "false": "0"}
                    sq = lambda x: lit_sql.get(x, x.strip("()") if x.startswith("(") else x)
                    sqlop = {"std.not": "NOT {0}", "std.neg": "-({0})", "std.eq": "{0} IS {1}", "std.ne": "{0} IS NOT {1}", "std.and": "{0} AND {1}", "std.or": "{0} OR {1}", "std.coalesce": "COALESCE({0}, {1})"}
                    want_v = con.execute("select " + sqlop[nm].format(sq(lit_txt("a0")), sq(lit_txt("a1"))) + " from t").fetchall()[0][0]
                    ok_native = (got == want_v) or (got is not None and want_v is not None and float(got) == float(want_v))
                except _sq.Error as ex:
                    ok_native = False
                    got, want_v = str(ex), None
                con.close()
            if ok_native is False:
                R.violation({"engine": "mirsym", "kernel": "K-fold", "kind": "fold", "op": nm}, f"K-fold: {etxt} is folded to a different value: compiled {r.get('sql')!r} yields {got!r}, the unfolded meaning is {want_v!r}",
                            {"prql": prog, "sql": r.get("sql"), "features": ["target:sql.sqlite"]})
            else:
                # the spec names the documented foldings; a further folding whose value is right is not a violation
                R.cov.setdefault("unobservable_models", []).append(["K-fold", etxt, str(r.get("sql") or r.get("errors"))[:160]])
    if "panic" in want:
        for e in panics:
            vd, model, dt = check(e.pc, z3.BoolVal(True))
            R.q(vd, dt)
            if vd == "sat":
                n = bv_to_py(model, bv("a0_int"))
                # a literal this small cannot be written in source (the lexer reads 9223372036854775808 as a float);
                # a PL JSON document can carry it: staged API json::to_pl + pl_to_rq
                import json as _json
                pl = drv.req(op="pl_raw", prql="from t\nselect {v = -5}\n")
                txt = _json.dumps(pl.get("pl"))
                if '"Integer": 5' not in txt:
                    R.engine_error("K-fold: PL template for the replay has changed shape")
                    continue
                doc = _json.loads(txt.replace('"Integer": 5', f'"Integer": {n}'))
                r = drv.req(op="pl_json_to_rq", pl=doc)
                if r.get("panic"):
                    R.violation({"engine": "mirsym", "kernel": "K-fold", "kind": "panic", "msg": r["panic"].split(" @ ")[0]},
                                f"K-fold: a PL document with -({n}) panics in constant folding: {r['panic']}", {"pl": doc, "entry": "json::to_pl + pl_to_rq", "value": n})
                else:
                    R.engine_error(f"K-fold: panic exit '{e.msg}' with literal {n} does not panic natively: {str(r)[:200]}")
    R.sample({"kernel": "K-fold", "exits": len(exits), "property": "static_eval_rq_operator returns the folded literal exactly in the documented cases (not/neg/eq/ne/and/or on literals of equal kind, null ?? x) and the unchanged operator otherwise, for every operator name (z3 string), every i64 and bool",
              "wall_s": round(time.time() - t0, 2)})
    core.log(f"[K-fold] {len(exits)} exits in {time.time()-t0:.1f}s")


def check_sstr(R, drv, tier):
    """K-sstr: translate_query_sstring (an s-string used as a relation) never panics, for every well-formed UTF-8 text of
    at most L bytes; byte-level string model in bytestr.py"""
    import bytestr
    t0 = time.time()
    L = 10 if tier == "quick" else 14
    try:
        funcs = kernels.load(r"^translate_query_sstring($|::promoted)")
        s_term = z3.Const("sstring_text", bytestr.SEQ)
        mt = z3.Bool("regex_matches_prefix")
        pre = bytestr.utf8_valid(s_term, L)
        I, exits = kernels.run_fn(funcs, "translate_query_sstring", [SOpaque("items", False), SOpaque("ctx", False)], pre,
                                  stubs=bytestr.stubs(s_term, mt), unwind=4, timeout_s=120, opaque_sinks=True)
    except Inconclusive as e:
        R.engine_error(f"K-sstr: {e}")
        return
    _account(R, I, "K-sstr")
    rets = [e for e in exits if e.kind == "return"]
    if len(rets) < 2:
        R.engine_error(f"K-sstr: vacuous - {len(rets)} return exits (expected the accepting and the rejecting path)")
    nice = [z3.And(z3.UGE(s_term[i], 0x20), s_term[i] != 0x22, s_term[i] != 0x27, s_term[i] != 0x5C, s_term[i] != 0x7B, s_term[i] != 0x7D, s_term[i] != 0x7F)
            for i in range(L)]
    for e in exits:
        if e.kind == "return":
            continue
        if e.kind != "panic":
            R.engine_error(f"K-sstr: exit {e.kind} {e.msg}")
            continue
        v, model, dt = check(list(e.pc) + nice, z3.BoolVal(True))
        if v != "sat":
            v2, model2, dt2 = check(e.pc, z3.BoolVal(True))
            dt += dt2
            if v2 == "sat":
                v, model = v2, model2
        R.q(v, dt)
        if v == "unknown":
            R.engine_error("K-sstr: unknown")
        if v != "sat":
            continue
        data = bytestr.model_bytes(model, s_term, L)
        try:
            text = data.decode("utf-8")
        except UnicodeDecodeError:
            R.engine_error(f"K-sstr: model {data!r} is not UTF-8 (encoding of well-formedness is wrong)")
            continue
        # the model describes the text AFTER trimming was over-approximated: surround nothing, use the text itself
        body = text.replace("{", "{{").replace("}", "}}")
        q = '"' if '"' not in body else ("'" if "'" not in body else '"""')
        prql = f"from s{q}{body}{q}\n"
        r = drv.compile(prql, "sql.sqlite")
        if r.get("panic"):
            R.violation({"engine": "mirsym", "kernel": "K-sstr", "kind": "panic", "msg": r["panic"].split(" @ ")[0][:60]},
                        f"K-sstr: an s-string relation with the text {text!r} ({data.hex()}) panics: {r['panic']}", {"prql": prql, "text_hex": data.hex()})
        else:
            R.cov.setdefault("unobservable_models", []).append(["K-sstr", data.hex(), e.msg, str(r.get("errors") or r.get("sql"))[:120]])
    R.sample({"kernel": "K-sstr", "exits": len(exits), "property": f"no panic exit of translate_query_sstring is reachable for any well-formed UTF-8 text of <= {L} bytes "
              "(trim over-approximated by any sub-slice on character boundaries; Regex::is_match unconstrained)", "wall_s": round(time.time() - t0, 2)})
    R.cov.setdefault("kernel_bounds", {})["K-sstr"] = f"UTF-8 texts of at most {L} bytes (every byte value, exact well-formedness); one s-string without interpolation"
    core.log(f"[K-sstr] {len(exits)} exits in {time.time()-t0:.1f}s")


def check_quote(R, drv, tier):
    """K-quote: quote_string chooses a delimiter that re-lexes to the same string, for every string of at most L characters"""
    import quote
    t0 = time.time()
    L = 6 if tier == "quick" else 9
    try:
        funcs = kernels.load_parser(r"^quote_string($|::)")
        text, dom = quote.symbolic_text(L)
        st_ = quote.stubs(L)
        I = Interp(funcs, stubs=st_, unwind=4, timeout_s=180)
        I.stub_patterns = [(re.compile(r"^core::str::<impl str>::split$"), st_["__split__"]),
                           (re.compile(r"^<(std|core)::str::Split<.*> as Iterator>::map$"), st_["__map__"]),
                           (re.compile(r"^<(std|core)::iter::Map<(std|core)::str::Split<.*>, .*> as Iterator>::max$"), st_["__max__"]),
                           (re.compile(r"^core::fmt::rt::Argument::<'_>::new_display$"), st_["__new_display__"]),
                           (re.compile(r"^(core::fmt::)?Arguments::<'_>::new$"), st_["__args_new__"])]
        I.opaque_sinks = True
        I.lazy = False
        exits = I.run("quote_string", [text], dom)
    except Inconclusive as e:
        R.engine_error(f"K-quote: {e}")
        return
    _account(R, I, "K-quote")
    rets = [e for e in exits if e.kind == "return"]
    if len(rets) < 3:
        R.engine_error(f"K-quote: vacuous - {len(rets)} return exits (expected: no double quote, no single quote, both)")
    inb = [z3.ULT(z3.BitVecVal(i, 64), text.n) for i in range(L)]

    def maxrun(q):
        """longest run of the character q in the text (written independently of the model inside the kernel)"""
        best = z3.BitVecVal(0, 64)
        for i in range(L):
            for k in range(1, L - i + 1):
                seg = z3.And(inb[i + k - 1], *[text.ch[i + j] == q for j in range(k)])
                best = z3.If(z3.And(seg, z3.ULT(best, k)), z3.BitVecVal(k, 64), best)
        return best
    starts = lambda q: z3.And(text.n != 0, text.ch[0] == q)
    ends = lambda q: z3.Or(*[z3.And(text.n == i + 1, text.ch[i] == q) for i in range(L)])
    nviol = 0
    for e in exits:
        if e.kind != "return":
            if e.kind == "panic":
                v, model, dt = check(e.pc, z3.BoolVal(True))
                R.q(v, dt)
                if v == "sat":
                    R.engine_error(f"K-quote: panic exit {e.msg} is reachable")
            else:
                R.engine_error(f"K-quote: exit {e.kind} {e.msg}")
            continue
        fm = [t for t in e.trace if isinstance(t, tuple) and t and t[0] == "format"]
        if len(fm) != 1:
            R.engine_error(f"K-quote: {len(fm)} format calls on a return path")
            continue
        desc = fm[0][1]
        idx = [k for k, (kind, t) in enumerate(desc) if kind == "arg" and t is text]
        if len(idx) != 1 or idx[0] != 1 or len(desc) != 3:
            R.engine_error(f"K-quote: output is not delimiter + text + delimiter: {desc}")
            continue

        def delim(part):
            kind, t = part
            if kind == "lit" and len(t) == 1:
                return z3.BitVecVal(ord(t), 32), z3.BitVecVal(1, 64)
            if kind == "arg" and isinstance(t, quote.Rep):
                return t.c, t.n
            return None
        d0, d1 = delim(desc[0]), delim(desc[2])
        if d0 is None or d1 is None:
            R.engine_error(f"K-quote: delimiter parts not understood: {desc}")
            continue
        (q, n), (q2, n2) = d0, d1
        ok = z3.And(q == q2, n == n2, z3.Or(q == 34, q == 39), z3.URem(n, 2) == 1, z3.ULT(maxrun(q), n),
                    z3.Or(n == 1, z3.And(z3.Not(starts(q)), z3.Not(ends(q)))))
        # caller's guard (Display for Literal::String): a text with a double quote at one end and a single quote at the other is
        # written with escapes and never reaches quote_string; the guard itself is probed through the real formatter below
        DQ_, SQ_ = z3.BitVecVal(34, 32), z3.BitVecVal(39, 32)
        mixed = z3.And(z3.Or(starts(DQ_), ends(DQ_)), z3.Or(starts(SQ_), ends(SQ_)))
        v, model, dt = check(list(e.pc) + [z3.Not(mixed)], z3.Not(ok), timeout_ms=120000)
        R.q(v, dt)
        if v == "unknown":
            R.engine_error("K-quote: unknown")
        if v != "sat":
            continue
        ln = model.eval(text.n, model_completion=True).as_long()
        cps = [model.eval(text.ch[i], model_completion=True).as_long() for i in range(ln)]
        # characters other than the two quotes are irrelevant to the decision: print them as letters
        txt = "".join(chr(c) if c in (34, 39) else "abcdefghi"[i] for i, c in enumerate(cps))
        esc = txt.replace('"', '\\"')
        prog = f'from t\nderive x = "{esc}"\n'
        r = drv.req(op="fmt", prql=prog)
        if r.get("ok") and (not r.get("same_tree") or r.get("reparse_errors") or not r.get("idempotent")):
            nviol += 1
            R.violation({"engine": "mirsym", "kernel": "K-quote", "kind": "fmt_quote", "starts_single_ends_double": txt.startswith("'") and txt.endswith('"'),
                         "ends_with_chosen_quote": txt.endswith("'") and not txt.endswith('"')},
                        f"K-quote: the string literal {txt!r} is printed as {str(r.get('formatted')).strip().splitlines()[-1]!r}, which does not lex back to it",
                        {"prql": prog, "formatted": r.get("formatted"), "text": txt})
        elif r.get("ok"):
            R.cov.setdefault("unobservable_models", []).append(["K-quote", txt, str(r.get("formatted")).strip()[-80:]])
        else:
            R.engine_error(f"K-quote: replay program for {txt!r} does not format: {str(r)[:200]}")
    # the guarded cases, through the real formatter (concrete probes of the caller's guard; raw strings cannot hold them)
    for txt in ("\"'", "'\"", "\"a'", "'a\"", "\", ''\"", "\"''a\"\"'", "'\"\"a''\""):
        esc = txt.replace('"', '\\"')
        prog = f'from t\nderive x = "{esc}"\n'
        r = drv.req(op="fmt", prql=prog)
        if r.get("ok") and (not r.get("same_tree") or r.get("reparse_errors") or not r.get("idempotent")):
            nviol += 1
            R.violation({"engine": "mirsym", "kernel": "K-quote", "kind": "fmt_quote", "mixed_ends": True},
                        f"K-quote: the string literal {txt!r} (a different quote at each end) is printed as {str(r.get('formatted')).strip().splitlines()[-1]!r}, which does not lex back to it",
                        {"prql": prog, "formatted": r.get("formatted"), "text": txt})
        elif not r.get("ok"):
            R.engine_error(f"K-quote: probe program for {txt!r} does not format: {str(r)[:200]}")
    R.sample({"kernel": "K-quote", "exits": len(exits), "property": f"for every string of <= {L} characters quote_string emits q^n + text + q^n with q a quote character, n odd, n greater than the "
              "longest run of q in the text, and (n > 1) the text neither starting nor ending with q", "wall_s": round(time.time() - t0, 2)})
    R.cov.setdefault("bounds", {})["K-quote"] = f"strings of at most {L} characters (every code point); both closures of quote_string executed from MIR"
    core.log(f"[K-quote] {len(exits)} exits, {nviol} violations in {time.time()-t0:.1f}s")


def check_dialect_route(R, drv, tier):
    """K-dialect-route: the dialect of the options reaches compile_query unchanged: sql::compile hands `options.target`'s dialect to
    translate_query, which hands it to pq::compile_query (each executed from MIR up to that call, with a symbolic Option<Dialect>)"""
    t0 = time.time()
    kernels.register_enums()
    nd = len(VARIANTS["Dialect"])
    od, ov = z3.BitVec("opt_d", 64), z3.BitVec("opt_v", 64)
    pre = [z3.Or(od == 0, od == 1), z3.ULT(ov, nd)]
    opt_dialect = SEnum("Option", od, {1: {0: SEnum("Dialect", ov, {})}})
    routes = [("sql::compile", r"^sql::compile($|::)", "translate_query", 1, "options"), ("translate_query", r"^translate_query($|::)", "compile_query", 1, "direct")]
    nq = 0
    for fname, rx, callee, argi, how in routes:
        try:
            funcs = kernels.load(rx + r"|<impl at prqlc/prqlc/src/sql/dialect.rs[^>]*>::(default|eq|ne|clone)$|<impl at prqlc/prqlc/src/lib.rs[^>]*>::(default|clone)$")
            if fname not in funcs:
                R.engine_error(f"K-dialect-route: {fname} not found in MIR")
                continue
            seen = []

            class Stop(Exception):
                pass

            def rec(I, st, a, _seen=seen):
                import models as _m
                _seen.append((list(st.pc), _m.deref(I, st, a[argi])))
                return ("panic", "__route_stop__")
            stubs = {callee: rec, "gen_query::translate_query": rec, "super::pq::compile_query": rec, "pq::compile_query": rec, "pq::gen_query::compile_query": rec}
            I = Interp(funcs, stubs=stubs, unwind=4, timeout_s=60)
            I.stub_patterns = [(re.compile(r"(^|::)%s$" % re.escape(callee)), rec)]
            if how == "options":
                target = SEnum("Target", 0, {0: {0: opt_dialect}})
                options = SAgg("struct", "Options", {0: SBool(z3.Bool("format")), 1: target, 2: SBool(z3.Bool("signature")), 3: SBool(z3.Bool("color")), 4: SOpaque("display", False),
                                                       "format": SBool(z3.Bool("format")), "target": target, "signature_comment": SBool(z3.Bool("signature")), "color": SBool(z3.Bool("color")),
                                                       "display": SOpaque("display", False)})
                # field order of Options is read from the source
                src = open(os.path.join(core.REPO, "prqlc/prqlc/src/lib.rs")).read()
                mm = re.search(r"pub struct Options \{(.*?)\n\}", src, re.S)
                order = re.findall(r"pub (\w+):", re.sub(r"//[^\n]*", "", mm.group(1)))
                for i_, nm in enumerate(order):
                    options.f[i_] = options.f.get(nm, SOpaque(nm, False))
                st = State()
                st.pc = list(pre)
                st.heap.append(options)
                args = [SOpaque("rq", False), SRef(-1, ("cell", 0))]
            else:
                st = State()
                st.pc = list(pre)
                args = [SOpaque("rq", False), opt_dialect]
            st.frames.append(I.new_frame(fname, args))
            I.deadline = time.time() + 60
            I.exits = []
            I.explore(st)
        except Inconclusive as e:
            R.engine_error(f"K-dialect-route {fname}: {e}")
            continue
        _account(R, I, "K-dialect-route")
        if not seen:
            R.engine_error(f"K-dialect-route: {fname} never calls {callee}")
            continue
        for pc, got in seen:
            if not isinstance(got, SEnum) or got.ty != "Option":
                R.engine_error(f"K-dialect-route: {fname} passes {got} to {callee}")
                continue
            gd = got.disc if not isinstance(got.disc, int) else z3.BitVecVal(got.disc, 64)
            inner = got.pay.get(1, {}).get(0)
            gv = inner.disc if inner is not None and not isinstance(inner.disc, int) else (z3.BitVecVal(inner.disc, 64) if inner is not None else ov)
            same = z3.And(gd == od, z3.Or(od == 0, gv == ov))
            v, model, dt = check(pc, z3.Not(same))
            R.q(v, dt)
            nq += 1
            if v == "unknown":
                R.engine_error("K-dialect-route: unknown")
            if v != "sat":
                continue
            D = VARIANTS["Dialect"]
            o_d = model.eval(od, model_completion=True).as_long()
            o_v = D[model.eval(ov, model_completion=True).as_long()]
            # native replay: a header that names a different dialect must not win over this option
            name = lambda v_: "variant:" + v_
            hdr = "mssql" if o_v != "MsSql" else "sqlite"
            prog = f"prql target:sql.{hdr}\n" + PROBE
            plain = PROBE
            r_opt_hdr = drv.compile(prog, name(o_v) if o_d == 1 else "sql.any")
            r_opt = drv.compile(plain, name(o_v) if o_d == 1 else "sql.any")
            if o_d == 1 and r_opt_hdr.get("sql") != r_opt.get("sql"):
                R.violation({"engine": "mirsym", "kernel": "K-dialect-route", "kind": "dialect_route", "fn": fname},
                            f"K-dialect-route: {fname} hands a different dialect to {callee} than the option {o_v}: with header sql.{hdr} the compiler emits {str(r_opt_hdr.get('sql') or r_opt_hdr.get('errors'))[:160]!r}, without header {str(r_opt.get('sql'))[:160]!r}",
                            {"prql": prog, "option": o_v, "fn": fname})
            else:
                R.cov.setdefault("unobservable_models", []).append(["K-dialect-route", fname, o_d, o_v])
    R.sample({"kernel": "K-dialect-route", "queries": nq, "property": "the Option<Dialect> taken from Options.target is the one compile_query receives (sql::compile -> translate_query -> compile_query)",
              "wall_s": round(time.time() - t0, 2)})
    core.log(f"[K-dialect-route] {nq} queries in {time.time()-t0:.1f}s")
