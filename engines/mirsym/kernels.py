"""Kernel harnesses: symbolic inputs, MIR bodies from the current tree, properties as z3 queries."""
import glob
import hashlib
import os
import re
import shutil
import subprocess
import time

import z3

import core
import mir
import models  # noqa: F401  (registers model table)
from sym import *  # noqa

MIR_DIR = os.path.join(core.BUILD, "mir")
HERE = os.path.dirname(os.path.abspath(__file__))


def emit_mir():
    with core.FileLock(os.path.join(core.BUILD, "mir.lock")):
        return _emit_mir()


def _emit_mir():
    """(re-)emit MIR of the prqlc lib from /repo's current tree; cached by tree hash"""
    th = core.tree_hash()
    out = os.path.join(MIR_DIR, f"prqlc-{th}.mir")
    if os.path.exists(out):
        return out
    os.makedirs(MIR_DIR, exist_ok=True)
    tgt = os.path.join(MIR_DIR, "target")
    env = dict(os.environ, CARGO_TARGET_DIR=tgt, CARGO_NET_OFFLINE="true")
    env.pop("RUSTUP_TOOLCHAIN", None)
    t = time.time()
    for f in glob.glob(os.path.join(tgt, "debug", "deps", "prqlc-*.mir")):
        os.remove(f)
    subprocess.run(["touch", os.path.join(core.REPO, "prqlc/prqlc/src/lib.rs")], check=False)
    r = subprocess.run(["cargo", "+nightly", "rustc", "--offline", "--lib", "--no-default-features", "--", "--emit=mir", "-Zmir-opt-level=0",
                        "-C", "debug-assertions=off", "-C", "overflow-checks=on"], cwd=os.path.join(core.REPO, "prqlc/prqlc"), env=env,
                       stdout=subprocess.PIPE, stderr=subprocess.STDOUT, text=True)
    subprocess.run(["git", "-C", core.REPO, "checkout", "--", "prqlc/prqlc/src/lib.rs"], check=False) if False else None
    fs = glob.glob(os.path.join(tgt, "debug", "deps", "prqlc-*.mir"))
    if r.returncode != 0 or not fs:
        raise core.EngineError("MIR emission failed:\n" + r.stdout[-2000:])
    for old in glob.glob(os.path.join(MIR_DIR, "prqlc-*.mir")):
        os.remove(old)
    os.replace(fs[0], out)
    core.log(f"[mirsym] MIR emitted in {time.time()-t:.1f}s -> {out}")
    return out


def emit_mir_parser():
    with core.FileLock(os.path.join(core.BUILD, "mir.lock")):
        return _emit_mir_parser()


def _emit_mir_parser():
    """MIR of the prqlc-parser lib (lexer: literal printing); cached by tree hash"""
    th = core.tree_hash()
    out = os.path.join(MIR_DIR, f"parser-{th}.mir")
    if os.path.exists(out):
        return out
    os.makedirs(MIR_DIR, exist_ok=True)
    tgt = os.path.join(MIR_DIR, "target")
    env = dict(os.environ, CARGO_TARGET_DIR=tgt, CARGO_NET_OFFLINE="true")
    env.pop("RUSTUP_TOOLCHAIN", None)
    t = time.time()
    for f in glob.glob(os.path.join(tgt, "debug", "deps", "prqlc_parser-*.mir")):
        os.remove(f)
    subprocess.run(["touch", os.path.join(core.REPO, "prqlc/prqlc-parser/src/lib.rs")], check=False)
    r = subprocess.run(["cargo", "+nightly", "rustc", "--offline", "--lib", "--", "--emit=mir", "-Zmir-opt-level=0",
                        "-C", "debug-assertions=off", "-C", "overflow-checks=on"], cwd=os.path.join(core.REPO, "prqlc/prqlc-parser"), env=env,
                       stdout=subprocess.PIPE, stderr=subprocess.STDOUT, text=True)
    fs = glob.glob(os.path.join(tgt, "debug", "deps", "prqlc_parser-*.mir"))
    if r.returncode != 0 or not fs:
        raise core.EngineError("MIR emission (prqlc-parser) failed:\n" + r.stdout[-2000:])
    for old in glob.glob(os.path.join(MIR_DIR, "parser-*.mir")):
        os.remove(old)
    os.replace(fs[0], out)
    core.log(f"[mirsym] parser MIR emitted in {time.time()-t:.1f}s -> {out}")
    return out


def emit_mir_sqlparser():
    with core.FileLock(os.path.join(core.BUILD, "mir.lock")):
        return _emit_mir_sqlparser()


def _emit_mir_sqlparser():
    """MIR of the sqlparser dependency as the workspace resolves it (only the `ast::value` bodies and the escape helpers are kept:
    the Display code that writes every literal prqlc emits); cached by Cargo.lock hash"""
    lock = open(os.path.join(core.REPO, "Cargo.lock"), "rb").read()
    th = hashlib.sha256(lock).hexdigest()[:16]
    out = os.path.join(MIR_DIR, f"sqlparser-v2-{th}.mir")
    if os.path.exists(out):
        return out
    os.makedirs(MIR_DIR, exist_ok=True)
    tgt = os.path.join(MIR_DIR, "target")
    env = dict(os.environ, CARGO_TARGET_DIR=tgt, CARGO_NET_OFFLINE="true")
    env.pop("RUSTUP_TOOLCHAIN", None)
    t = time.time()
    for f in glob.glob(os.path.join(tgt, "debug", "deps", "sqlparser-*.mir")):
        os.remove(f)
    for f in glob.glob(os.path.join(tgt, "debug", ".fingerprint", "sqlparser-*")):
        shutil.rmtree(f, ignore_errors=True)
    r = subprocess.run(["cargo", "+nightly", "rustc", "--offline", "-p", "sqlparser", "--lib", "--", "--emit=mir", "-Zmir-opt-level=0",
                        "-C", "debug-assertions=off", "-C", "overflow-checks=on"], cwd=os.path.join(core.REPO, "prqlc/prqlc"), env=env,
                       stdout=subprocess.PIPE, stderr=subprocess.STDOUT, text=True)
    fs = glob.glob(os.path.join(tgt, "debug", "deps", "sqlparser-*.mir"))
    if r.returncode != 0 or not fs:
        raise core.EngineError("MIR emission (sqlparser) failed:\n" + r.stdout[-2000:])
    keep = re.compile(r"^(fn|const) (ast::value::|escape_\w+|<impl at [^>]*src/ast/value\.rs|ast::<impl at [^>]*src/ast/mod\.rs:\d+:[^>]*>::(fmt|new|with_quote)(::<[^(]*>)?\(_1: (&(ast::)?Ident\b|char\b|S\b))")
    with open(fs[0]) as fi, open(out + ".tmp", "w") as fo:
        on = False
        for line in fi:
            if line.startswith(("fn ", "const ", "static ")):
                on = keep.match(line) is not None
            if on:
                fo.write(line)
    for f in fs:
        os.remove(f)
    for old in glob.glob(os.path.join(MIR_DIR, "sqlparser-*.mir")):
        os.remove(old)
    os.replace(out + ".tmp", out)
    core.log(f"[mirsym] sqlparser MIR emitted in {time.time()-t:.1f}s -> {out}")
    return out


def sqlparser_src():
    lock = open(os.path.join(core.REPO, "Cargo.lock")).read()
    m = re.search(r'name = "sqlparser"\nversion = "([^"]+)"', lock)
    if not m:
        raise core.EngineError("sqlparser not in Cargo.lock")
    ds = glob.glob(os.path.expanduser(f"~/.cargo/registry/src/*/sqlparser-{m.group(1)}"))
    if not ds:
        raise core.EngineError("sqlparser source not in the cargo registry")
    return ds[0]


def load_sqlparser(want_regex):
    path = emit_mir_sqlparser()
    key = (path, want_regex)
    if key not in _FUNCS:
        rx = re.compile(want_regex)
        fs = mir.parse_file(path, want=lambda n: rx.search(n) is not None)
        fs.update(mir.parse_file(os.path.join(HERE, "prelude.mir")))
        _FUNCS[key] = fs
    return _FUNCS[key]


def load_parser(want_regex):
    path = emit_mir_parser()
    key = (path, want_regex)
    if key not in _FUNCS:
        rx = re.compile(want_regex)
        fs = mir.parse_file(path, want=lambda n: rx.search(n) is not None)
        fs.update(mir.parse_file(os.path.join(HERE, "prelude.mir")))
        _FUNCS[key] = fs
    return _FUNCS[key]


_FUNCS = {}


def load(want_regex):
    path = emit_mir()
    key = (path, want_regex)
    if key not in _FUNCS:
        rx = re.compile(want_regex)
        fs = mir.parse_file(path, want=lambda n: rx.search(n) is not None)
        fs.update(mir.parse_file(os.path.join(HERE, "prelude.mir")))
        _FUNCS[key] = fs
    return _FUNCS[key]


_INDEX = {}


def full_index():
    """names of every function (and promoted constant) in the current tree's MIR, without parsing the bodies"""
    path = emit_mir()
    if path not in _INDEX:
        names = []
        with open(path) as f:
            for line in f:
                if line.startswith("fn "):
                    m = mir.HDR.match(line.rstrip("\n"))
                    if m:
                        names.append((m.group(1), m.group(3)))
        _INDEX[path] = names
    return _INDEX[path]


def lazy_lookup(funcs, callee, strip_generics):
    """a callee that is not among the loaded bodies: find it in the full MIR, load it together with its closures and promoted
    constants, return its name (None if not found or ambiguous). Free functions are printed with their bare name; derived
    trait methods (`<T as Default>::default`) are matched by the impl method's return type."""
    idx = full_index()
    tf = strip_generics(callee)
    cands = [n for n, _ in idx if n == tf or n.endswith("::" + tf) or tf.endswith("::" + n)]
    m = re.match(r"^<(.+) as (.+?)>::(\w+)$", tf)
    if not cands and m and m.group(3) == "default":
        short = m.group(1).split("::")[-1].split("<")[0]
        cands = [n for n, ret in idx if re.search(r"<impl at [^>]*>::default$", n) and ret.split("::")[-1].split("<")[0] == short]
    cands = sorted(set(cands))
    if len(cands) != 1:
        return None
    name = cands[0]
    if name not in funcs:
        pre = re.escape(name)
        rx = re.compile(r"^(const )?%s($|::promoted|::\{closure)" % pre)
        funcs.update(mir.parse_file(emit_mir(), want=lambda n: rx.search(n) is not None))
    return name if name in funcs else None


def body_hash(fn):
    h = hashlib.sha256()
    for n in sorted(fn.blocks):
        b = fn.blocks[n]
        h.update(repr((b.stmts, b.term)).encode())
    return h.hexdigest()[:12]


def bv_to_py(model, t, signed=True):
    v = model.eval(t, model_completion=True)
    n = v.as_long()
    if signed and n >= 1 << (v.size() - 1):
        n -= 1 << v.size()
    return n


CROSS = {"n": 0, "checked": 0, "agree": 0, "skipped": 0, "disagree": []}


def cross_check_cvc5(solver, verdict):
    """second opinion: the same query as SMT-LIB2 through cvc5 (sampled: the first 5 queries of a process, then every 25th; all of
    them with VERIF_CVC5=all). A disagreement is an engine error - it is recorded here and raised by the caller's bookkeeping."""
    mode = os.environ.get("VERIF_CVC5") or ("sample" if os.environ.get("VERIF_TIER") == "thorough" else "light")
    if mode == "off" or verdict not in ("sat", "unsat"):
        return
    CROSS["n"] += 1
    every, first = (25, 5) if mode == "sample" else (200, 3)
    if mode != "all" and not (CROSS["n"] <= first or CROSS["n"] % every == 0):
        return
    out_text = ""
    try:
        text = "(set-logic ALL)\n" + solver.to_smt2()
        r = subprocess.run(["cvc5", "--lang", "smt2", "--tlimit=20000"], input=text, capture_output=True, text=True, timeout=40)
        out_text = r.stdout or ""
        out = out_text.strip().splitlines()
        ans = out[0].strip() if out else ""
    except Exception:
        ans = ""
    if ans not in ("sat", "unsat") or "(error" in out_text:
        CROSS["skipped"] += 1
        return
    CROSS["checked"] += 1
    if ans == verdict:
        CROSS["agree"] += 1
    else:
        CROSS["disagree"].append((verdict, ans, text[:4000]))
        core.log(f"[cvc5] DISAGREEMENT: z3 says {verdict}, cvc5 says {ans}")


def check(pc, prop_negation, timeout_ms=60000):
    """is (pc and prop_negation) satisfiable? returns ('sat', model) | ('unsat', None) | ('unknown', None), seconds"""
    s = z3.Solver()
    s.set("timeout", timeout_ms)
    s.add(*pc)
    s.add(prop_negation)
    t = time.time()
    r = s.check()
    dt = time.time() - t
    verdict = "sat" if r == z3.sat else ("unsat" if r == z3.unsat else "unknown")
    cross_check_cvc5(s, verdict)
    if r == z3.sat:
        return "sat", s.model(), dt
    return verdict, None, dt


# ---------------------------------------------------------------- K-take
def sym_range(i):
    s, cs = sym_option(f"r{i}_s", SInt(z3.BitVec(f"r{i}_sv", 64), 64, True))
    e, ce = sym_option(f"r{i}_e", SInt(z3.BitVec(f"r{i}_ev", 64), 64, True))
    rng = SAgg("struct", "Range", {0: s, 1: e, "start": s, "end": e})
    return rng, [cs, ce]


def range_vals(i):
    return (z3.BitVec(f"r{i}_d".replace("_d", "_s_d"), 64), z3.BitVec(f"r{i}_sv", 64), z3.BitVec(f"r{i}_e_d", 64), z3.BitVec(f"r{i}_ev", 64))


def stub_try_range_into_int(I, st, args):
    """ranges are given as integer ranges already; the non-integer-literal error path is the other alternative"""
    rng = args[0]
    ok = SEnum("Result", 0, {0: {0: rng}})
    err = SEnum("Result", 1, {1: {0: SOpaque("Error(expected an integer literal)", taint=False)}})
    flag = z3.Bool(f"nonint_{len(st.pc)}_{id(rng) % 1000}")
    return [(z3.Not(flag), ok), (flag, err)]


def find_slice(fn, callee_sub, stop_debug):
    """block that calls `callee_sub`; local feeding its argument; block where the local bound to `stop_debug` has been assigned"""
    start = arg_local = None
    for n, b in fn.blocks.items():
        if b.term and b.term[0] == "call" and callee_sub in b.term[2]:
            start = n
            callee, args = Interp.split_call(None, b.term[2])
            m = re.match(r"move _(\d+)", args[0])
            arg_local = int(m.group(1))
            # the argument temp is assigned from the real source earlier in the same block
            for lhs, rhs in b.stmts:
                if lhs == f"_{arg_local}" and rhs.startswith("move _"):
                    arg_local = int(rhs[6:])
    stop_locals = [int(p[1:]) for nm, p in fn.debug.items() if nm == stop_debug and re.fullmatch(r"_\d+", p)]
    return start, arg_local, stop_locals


def k_take(R, k, tier):
    """range_of_ranges + LIMIT/OFFSET arithmetic of translate_select_pipeline for k consecutive takes"""
    funcs = load(r"range_of_ranges|or_map|^translate_select_pipeline$|translate_select_pipeline::\{closure#\d+\}|try_range_into_int")
    tsp = funcs["translate_select_pipeline"]
    # locate the slice: from the call of range_of_ranges to the definition of `limit`
    start_bb = arg_local = None
    for n, b in tsp.blocks.items():
        if b.term and b.term[0] == "call" and "range_of_ranges(" in b.term[2]:
            start_bb = n
            arg_local = int(re.search(r"\(move _(\d+)\)$", b.term[2]).group(1))
            for lhs, rhs in b.stmts:
                if lhs == f"_{arg_local}" and re.fullmatch(r"move _\d+", rhs):
                    arg_local = int(rhs[6:])
    dbg = {}
    for line_nm, pl in tsp.debug.items():
        dbg.setdefault(line_nm, pl)
    # debug names repeat (shadowing): take the first `offset` and `limit` after `take`
    src = open(emit_mir()).read()
    m = re.search(r"debug take => _(\d+);.*?debug offset => _(\d+);.*?debug limit => _(\d+);", src, re.S)
    if start_bb is None or not m:
        raise core.EngineError("K-take: slice anchors (range_of_ranges call / debug take,offset,limit) not found in translate_select_pipeline")
    l_take, l_off, l_lim = (int(x) for x in m.groups())
    stop_bb = None
    for n, b in tsp.blocks.items():
        if b.term and b.term[0] == "call" and b.term[1] == f"_{l_lim}":
            stop_bb = b.term[3]
    if stop_bb is None:
        raise core.EngineError("K-take: definition of `limit` not found")
    ranges, pre = [], []
    for i in range(k):
        r, cs = sym_range(i)
        ranges.append(r)
        pre += cs
    I = Interp(funcs, stubs={"try_range_into_int": stub_try_range_into_int}, unwind=k + 3,
               timeout_s=120 if tier == "quick" else 600)
    st = State()
    st.pc = list(pre)
    fr = Frame(tsp)
    fr.locals[arg_local] = SVec(ranges)
    fr.bb, fr.idx = start_bb, 0
    # run the statements of the start block from the top: they only move the argument
    st.frames.append(fr)
    I.deadline = time.time() + I.timeout_s
    I.exits = []
    # stop when the slice frame enters stop_bb
    orig_jump = I.jump

    class Stop(Exception):
        pass

    def jump(state, frame, bb):
        if frame.fn is tsp and len(state.frames) == 1:
            t = frame.fn.blocks[frame.bb].term
            if t and t[0] == "call" and t[1] == "_0" and "from_residual" in t[2]:
                I.finish_path("slice_err", state, frame.locals.get(0))
                raise Stop()
        if frame.fn is tsp and bb == stop_bb and len(state.frames) == 1:
            frame.bb, frame.idx = bb, 0
            I.finish_path("slice_end", state, (frame.locals.get(l_off), frame.locals.get(l_lim)))
            raise Stop()
        orig_jump(state, frame, bb)
    I.jump = jump
    work = [st]
    while work:
        s = work.pop()
        try:
            res = I.step_until_fork(s)
        except Stop:
            continue
        if res:
            work.extend(res)
    return I, ranges, pre


def take_reference(k, p, W=80):
    """positional meaning of k consecutive takes for position p (bit-vector of width W, 1-based):
    returns Bool 'row at position p of the input survives all k takes'"""
    ext = lambda t: z3.SignExt(W - 64, t)
    cur = p
    kept = z3.BoolVal(True)
    for i in range(k):
        sd, sv, ed, ev = z3.BitVec(f"r{i}_s_d", 64), z3.BitVec(f"r{i}_sv", 64), z3.BitVec(f"r{i}_e_d", 64), z3.BitVec(f"r{i}_ev", 64)
        s = z3.If(sd == 1, ext(sv), z3.BitVecVal(1, W))
        kept = z3.And(kept, cur >= s, z3.Or(ed == 0, cur <= ext(ev)))
        cur = cur - s + 1
    return kept


def documented_pre(k):
    """validate_take_range: bounds that are present are >= 1"""
    cs = []
    for i in range(k):
        sd, sv, ed, ev = z3.BitVec(f"r{i}_s_d", 64), z3.BitVec(f"r{i}_sv", 64), z3.BitVec(f"r{i}_e_d", 64), z3.BitVec(f"r{i}_ev", 64)
        cs += [z3.Or(sd == 0, sv >= 1), z3.Or(ed == 0, ev >= 1)]
    return cs


def model_ranges(model, k):
    out = []
    for i in range(k):
        sd = model.eval(z3.BitVec(f"r{i}_s_d", 64), model_completion=True).as_long()
        ed = model.eval(z3.BitVec(f"r{i}_e_d", 64), model_completion=True).as_long()
        s = bv_to_py(model, z3.BitVec(f"r{i}_sv", 64)) if sd == 1 else None
        e = bv_to_py(model, z3.BitVec(f"r{i}_ev", 64)) if ed == 1 else None
        out.append((s, e))
    return out


# ---------------------------------------------------------------- enum registry from the current sources
def register_enums():
    sp = glob.glob(os.path.expanduser("~/.cargo/registry/src/*/sqlparser-0.60.0/src/ast/mod.rs"))[0]
    register_enum("Dialect", enum_from_source(os.path.join(core.REPO, "prqlc/prqlc/src/sql/dialect.rs"), "Dialect"))
    register_enum("WindowKind", enum_from_source(os.path.join(core.REPO, "prqlc/prqlc/src/ir/generic.rs"), "WindowKind"))
    register_enum("Target", enum_from_source(os.path.join(core.REPO, "prqlc/prqlc/src/lib.rs"), "Target"))
    register_enum("WindowFrameBound", enum_from_source(sp, "WindowFrameBound"))
    register_enum("WindowFrameUnits", enum_from_source(sp, "WindowFrameUnits"))
    register_enum("ParseError", ["VariantNotFound"])


def run_fn(funcs, name, args, pre=(), stubs=None, unwind=8, timeout_s=120, opaque_sinks=False):
    I = Interp(funcs, stubs=stubs or {}, unwind=unwind, timeout_s=timeout_s)
    I.opaque_sinks = opaque_sinks
    exits = I.run(name, args, pre)
    return I, exits


# ---------------------------------------------------------------- K-frame
def stub_unpack_as_int_literal(I, st, args):
    v = args[0]
    ok = SEnum("Result", 0, {0: {0: v}})
    err = SEnum("Result", 1, {1: {0: SOpaque("Error(expected an integer literal)", taint=False)}})
    flag = z3.Bool(f"nonint_{len(st.pc)}_{len(st.trace)}")
    st.trace.append("unpack")
    return [(z3.Not(flag), ok), (flag, err)]


def k_frame(tier):
    register_enums()
    funcs = load(r"^try_into_window_frame$|^parse_bound$|^gen_expr::unpack_as_int_literal$|^unpack_as_int_literal$")
    kind = z3.BitVec("wk", 64)
    s, cs = sym_option("ws", SInt(z3.BitVec("ws_v", 64), 64, True))
    e, ce = sym_option("we", SInt(z3.BitVec("we_v", 64), 64, True))
    rng = SAgg("struct", "Range", {0: s, 1: e, "start": s, "end": e})
    frame = SAgg("struct", "WindowFrame", {0: SEnum("WindowKind", kind, {}), 1: rng, "kind": SEnum("WindowKind", kind, {}), "range": rng})
    pre = [cs, ce, z3.Or(kind == 0, kind == 1)]
    I, exits = run_fn(funcs, "try_into_window_frame", [frame], pre, stubs={"unpack_as_int_literal": stub_unpack_as_int_literal})
    return I, exits, pre


def bound_spec(b, present, n, side):
    """z3 Bool: WindowFrameBound value `b` is what the documented bound (present?, n) denotes on this side"""
    from models import is_variant
    VB = VARIANTS["WindowFrameBound"]
    cur, prec, foll = VB.index("CurrentRow"), VB.index("Preceding"), VB.index("Following")

    def payload_is(idx, expect_term):
        """variant idx carries Some(Box(Expr::Value(Number(string_of(expect), false))))"""
        try:
            opt = b.pay[idx][0]
            val = opt.pay[1][0]                 # Some(..) -> Box contents -> Expr::Value(x)
            num = val.f[0]                      # Value::Number(string, long)
            s, longflag = num.f[0], num.f[1]
            if not (isinstance(s, SAgg) and s.kind == "string_of"):
                return z3.BoolVal(False)
            return z3.And(is_variant(opt, 1), s.f[0].t == expect_term, z3.Not(longflag.t))
        except (KeyError, AttributeError, IndexError):
            return z3.BoolVal(False)

    def payload_none(idx):
        try:
            return is_variant(b.pay[idx][0], 0)
        except (KeyError, AttributeError):
            return z3.BoolVal(False)
    unb = prec if side == "start" else foll
    absent = z3.And(is_variant(b, unb), payload_none(unb))
    zero = is_variant(b, cur)
    pos = z3.And(is_variant(b, foll), payload_is(foll, n))
    neg = z3.And(is_variant(b, prec), payload_is(prec, -n))
    return z3.If(z3.Not(present), absent, z3.If(n == 0, zero, z3.If(n > 0, pos, neg)))


# ---------------------------------------------------------------- K-lit
def k_lit():
    funcs = load(r"^gen_expr::expr_of_i64$")
    n = z3.BitVec("n", 64)
    I, exits = run_fn(funcs, "gen_expr::expr_of_i64", [SInt(n, 64, True)])
    return I, exits, n


# ---------------------------------------------------------------- K-dialect / K-target
def k_dialect():
    register_enums()
    funcs = load(r"^compile_query$|^compile_query::\{closure#0\}$|<impl at prqlc/prqlc/src/lib.rs[^>]*>::default$|<impl at prqlc/prqlc/src/sql/dialect.rs[^>]*>::default$")
    cq = funcs["compile_query"]
    nd = len(VARIANTS["Dialect"])
    od, ov = z3.BitVec("opt_d", 64), z3.BitVec("opt_v", 64)
    opt = SEnum("Option", od, {1: {0: SEnum("Dialect", ov, {})}})
    gd = z3.BitVec("hdr_present", 64)
    rd, hd, hv = z3.BitVec("parse_d", 64), z3.BitVec("hdr_dialect_d", 64), z3.BitVec("hdr_dialect_v", 64)
    pre = [z3.Or(od == 0, od == 1), z3.ULT(ov, nd), z3.Or(gd == 0, gd == 1), z3.Or(rd == 0, rd == 1), z3.Or(hd == 0, hd == 1), z3.ULT(hv, nd)]

    def stub_get(I, st, args):
        st.heap.append(SStr(z3.String("hdr")))
        st.trace.append("HashMap::get(target)")
        return SEnum("Option", gd, {1: {0: SRef(-1, ("cell", len(st.heap) - 1))}})

    def stub_from_str(I, st, args):
        st.trace.append("Target::from_str")
        tgt = SEnum("Target", 0, {0: {0: SEnum("Option", hd, {1: {0: SEnum("Dialect", hv, {})}})}})
        return SEnum("Result", rd, {0: {0: tgt}, 1: {0: SOpaque("Error(NotFound target)", taint=False)}})
    stubs = {"std::collections::HashMap::<std::string::String, std::string::String>::get::<str>": stub_get,
             "<Target as FromStr>::from_str": stub_from_str,
             "log::log_stage": lambda I, st, a: SUnit()}
    query = SAgg("struct", "RelationalQuery", {0: SAgg("struct", "QueryDef", {0: SOpaque("version", False), 1: SOpaque("other-map", False)}),
                                                 1: SOpaque("tables", False), 2: SOpaque("relation", False)})
    # the slice ends where `dialect` is bound: the block that calls AnchorContext::of
    stop_bb = None
    for n, b in cq.blocks.items():
        if b.term and b.term[0] == "call" and "AnchorContext::of(" in b.term[2]:
            stop_bb = n
    dloc = None
    src = open(emit_mir()).read()
    mm = re.search(r"fn compile_query\(.*?debug dialect => _(\d+);.*?debug dialect => _(\d+);", src, re.S)
    if stop_bb is None or not mm:
        raise core.EngineError("K-dialect: anchors not found (AnchorContext::of call / debug dialect)")
    dloc = int(mm.group(2))
    I = Interp(funcs, stubs=stubs, unwind=4, timeout_s=120)
    st = State()
    st.pc = list(pre)
    fr = I.new_frame("compile_query", [query, opt])
    st.frames.append(fr)
    I.deadline = time.time() + I.timeout_s
    I.exits = []
    orig_jump = I.jump

    class Stop(Exception):
        pass

    def jump(state, frame, bb):
        if frame.fn is cq and len(state.frames) == 1:
            t = frame.fn.blocks[frame.bb].term
            if t and t[0] == "call" and t[1] == "_0" and "from_residual" in t[2]:
                I.finish_path("slice_err", state, frame.locals.get(0))
                raise Stop()
            if bb == stop_bb:
                I.finish_path("slice_end", state, frame.locals.get(dloc))
                raise Stop()
        orig_jump(state, frame, bb)
    I.jump = jump
    work = [st]
    while work:
        s = work.pop()
        try:
            res = I.step_until_fork(s)
        except Stop:
            continue
        if res:
            work.extend(res)
    return I, dict(od=od, ov=ov, gd=gd, rd=rd, hd=hd, hv=hv), pre


def k_target():
    register_enums()
    funcs = load(r"<impl at prqlc/prqlc/src/lib.rs[^>]*>::from_str|<impl at prqlc/prqlc/src/sql/dialect.rs[^>]*>::from_str$")
    name = [f for f in funcs if re.search(r"lib.rs:\d+:\d+: \d+:\d+>::from_str$", f) and funcs[f].ret.startswith("std::result::Result<Target")]
    dname = [f for f in funcs if "dialect.rs" in f and f.endswith("::from_str")]
    if len(name) != 1 or len(dname) != 1:
        raise core.EngineError(f"K-target: from_str bodies not found: {name} {dname}")
    s = z3.String("target_name")
    st_heap_str = SStr(s)
    I = Interp(funcs, stubs={}, hints={}, unwind=4, timeout_s=120)
    I.stubs["<sql::dialect::Dialect as FromStr>::from_str"] = lambda I_, st, a: ("call", dname[0], a)
    state = State()
    state.heap.append(st_heap_str)
    fr = I.new_frame(name[0], [SRef(-1, ("cell", 0))])
    state.frames.append(fr)
    I.deadline = time.time() + I.timeout_s
    I.exits = []
    # stop exploring error-message construction: the Err path starts where new_debug is called
    orig_call = I.call

    def call(st, dest, callee_call, ret):
        if "core::fmt::rt::Argument" in callee_call and len(st.frames) == 1:
            I.finish_path("err_path", st, None)
            return None
        return orig_call(st, dest, callee_call, ret)
    I.call = call
    I.explore(state)
    return I, s


# ---------------------------------------------------------------- parallel discharge of independent queries
class DictModel:
    """model returned by a worker process: values of the declared constants"""

    def __init__(self, vals):
        self.vals = vals

    def eval(self, t, model_completion=True):
        subs = []
        for d in z3util_consts(t):
            nm = d.decl().name()
            if nm in self.vals:
                v = self.vals[nm]
                if z3.is_bv(d):
                    subs.append((d, z3.BitVecVal(v, d.size())))
                elif z3.is_bool(d):
                    subs.append((d, z3.BoolVal(v)))
                elif z3.is_string(d):
                    subs.append((d, z3.StringVal(v)))
                elif z3.is_int(d):
                    subs.append((d, z3.IntVal(v)))
            elif model_completion:
                if z3.is_bv(d):
                    subs.append((d, z3.BitVecVal(0, d.size())))
                elif z3.is_bool(d):
                    subs.append((d, z3.BoolVal(False)))
                elif z3.is_string(d):
                    subs.append((d, z3.StringVal("")))
        return z3.simplify(z3.substitute(t, *subs)) if subs else z3.simplify(t)

    def __getitem__(self, t):
        return self.eval(t)


def z3util_consts(t):
    seen, out, stack = set(), [], [t]
    while stack:
        x = stack.pop()
        if x.get_id() in seen:
            continue
        seen.add(x.get_id())
        if z3.is_const(x) and x.decl().kind() == z3.Z3_OP_UNINTERPRETED:
            out.append(x)
        else:
            stack.extend(x.children())
    return out


def _solve_smt2(job):
    smt2, timeout_ms = job
    s = z3.Solver()
    s.set("timeout", timeout_ms)
    s.from_string(smt2)
    t = time.time()
    r = s.check()
    dt = time.time() - t
    if r == z3.sat:
        m = s.model()
        vals = {}
        for d in m.decls():
            v = m[d]
            if z3.is_bv_value(v):
                vals[d.name()] = v.as_long()
            elif z3.is_true(v) or z3.is_false(v):
                vals[d.name()] = z3.is_true(v)
            elif z3.is_string_value(v):
                vals[d.name()] = v.as_string()
            elif z3.is_int_value(v):
                vals[d.name()] = v.as_long()
        return "sat", vals, dt
    return ("unsat" if r == z3.unsat else "unknown"), None, dt


def check_many(queries, timeout_ms=60000, workers=None):
    """queries: list of (pc list, negated property). Returns list of (verdict, model|None, seconds)."""
    import multiprocessing as mp
    jobs = []
    for pc, neg in queries:
        s = z3.Solver()
        s.add(*pc)
        s.add(neg)
        jobs.append((s.to_smt2(), timeout_ms))
    if len(jobs) <= 2:
        res = [_solve_smt2(j) for j in jobs]
    else:
        with mp.get_context("fork").Pool(workers or min(16, len(jobs))) as pool:
            res = pool.map(_solve_smt2, jobs, chunksize=1)
    return [(v, DictModel(m) if m is not None else None, dt) for v, m, dt in res]


# ---------------------------------------------------------------- generic slice runner
def run_slice(I, fn, start_bb, locals_, stop_bb, pre=(), start_idx=0):
    """execute `fn` from the top of start_bb with the given locals until control enters stop_bb in that frame;
    exits of kind 'slice_end' carry the frame's locals"""
    st = State()
    st.pc = list(pre)
    fr = Frame(fn)
    fr.locals.update(locals_)
    fr.bb, fr.idx = start_bb, start_idx
    st.frames.append(fr)
    I.deadline = time.time() + I.timeout_s
    I.exits = []
    orig_jump = I.jump

    class Stop(Exception):
        pass

    def jump(state, frame, bb):
        if frame.fn is fn and len(state.frames) == 1 and bb == stop_bb:
            I.finish_path("slice_end", state, dict(frame.locals))
            raise Stop()
        orig_jump(state, frame, bb)
    I.jump = jump
    work = [st]
    while work:
        s = work.pop()
        try:
            res = I.step_until_fork(s)
        except Stop:
            continue
        if res:
            work.extend(res)
    I.jump = orig_jump
    return I.exits


# ---------------------------------------------------------------- K-roll: window arm of resolve_special_func
def k_roll():
    register_enums()
    funcs = load(r"resolve_special_func$|^transforms::range_is_empty$|^range_is_empty$")
    name = [f for f in funcs if f.endswith("::resolve_special_func")]
    if len(name) != 1:
        raise core.EngineError(f"K-roll: resolve_special_func not found: {name}")
    fn = funcs[name[0]]
    dl = fn.debug_list
    ki = None
    for i, (nm, pl) in enumerate(dl):
        if nm == "kind" and i + 2 < len(dl) and dl[i + 1][0] == "start" and dl[i + 2][0] == "end":
            ki = i
    if ki is None:
        raise core.EngineError("K-roll: `let (kind, start, end)` not found in resolve_special_func")
    loc = {}
    for want in ("expanding", "rolling", "rows", "range"):
        for nm, pl in reversed(dl[:ki]):
            if nm == want:
                loc[want] = int(pl[1:])
                break
    k_loc, s_loc, e_loc = (int(dl[ki + j][1][1:]) for j in range(3))
    start_bb = stop_bb = None
    for n, b in fn.blocks.items():
        if b.term and b.term[0] == "switch":
            for si, (_, rhs) in enumerate(b.stmts):
                if rhs == f"copy _{loc['expanding']}":
                    start_bb, start_idx = n, si
        for lhs, rhs in b.stmts:
            if lhs == f"_{e_loc}":
                mm = re.search(r"\(_(\d+)\.2:", rhs)
                if mm:
                    stop_bb, tup_loc = n, int(mm.group(1))
    if start_bb is None or stop_bb is None:
        raise core.EngineError(f"K-roll: slice anchors not found (start={start_bb}, stop={stop_bb})")
    exp = z3.Bool("expanding")
    rol = z3.BitVec("rolling", 64)

    def opt_pair(tag):
        s, cs = sym_option(f"{tag}_s", SInt(z3.BitVec(f"{tag}_sv", 64), 64, True))
        e, ce = sym_option(f"{tag}_e", SInt(z3.BitVec(f"{tag}_ev", 64), 64, True))
        return SAgg("tuple", "", {0: s, 1: e}), [cs, ce]
    rows, c1 = opt_pair("rows")
    rng, c2 = opt_pair("range")
    I = Interp(funcs, unwind=4, timeout_s=120)
    exits = run_slice(I, fn, start_bb, {loc["expanding"]: SBool(exp), loc["rolling"]: SInt(rol, 64, True), loc["rows"]: rows, loc["range"]: rng},
                      stop_bb, pre=c1 + c2, start_idx=start_idx)
    return I, exits, tup_loc


# ---------------------------------------------------------------- K-json: from_text's map_json_primitive
def json_number_models(kind, u, i):
    """serde_json::Number with the (non arbitrary-precision) representation N::{PosInt(u64), NegInt(i64), Float(f64)};
    the documented contract of is_i64 / is_f64 / as_i64 / as_f64"""
    from models import deref
    imax = z3.BitVecVal((1 << 63) - 1, 64)
    fits = z3.ULE(u, imax)

    def is_i64(I, st, a):
        return SBool(z3.If(kind == 0, fits, kind == 1))

    def is_u64(I, st, a):
        return SBool(kind == 0)

    def is_f64(I, st, a):
        return SBool(kind == 2)

    def as_i64(I, st, a):
        d = z3.If(z3.Or(z3.And(kind == 0, fits), kind == 1), z3.BitVecVal(1, 64), z3.BitVecVal(0, 64))
        return SEnum("Option", d, {1: {0: SInt(z3.If(kind == 0, u, i), 64, True)}})

    def as_f64(I, st, a):
        return SEnum("Option", 1, {1: {0: SOpaque("f64", taint=False)}})
    return {"serde_json::Number::is_i64": is_i64, "serde_json::Number::is_u64": is_u64, "serde_json::Number::is_f64": is_f64,
            "serde_json::Number::as_i64": as_i64, "serde_json::Number::as_f64": as_f64}


def k_json_prim():
    sj = glob.glob(os.path.expanduser("~/.cargo/registry/src/*/serde_json-1.0.*/src/value/mod.rs"))[0]
    register_enum("Value", enum_from_source(sj, "Value"))
    funcs = load(r"^map_json_primitive$")
    vd = z3.BitVec("json_kind", 64)
    kind, u, i = z3.BitVec("num_repr", 64), z3.BitVec("num_u64", 64), z3.BitVec("num_i64", 64)
    V = VARIANTS["Value"]
    num = SAgg("struct", "Number", {0: SOpaque("N", False)})
    val = SEnum("Value", vd, {V.index("Bool"): {0: SBool(z3.Bool("json_bool"))}, V.index("Number"): {0: num},
                              V.index("String"): {0: SStr(z3.String("json_str"))}, V.index("Array"): {0: SOpaque("array", False)},
                              V.index("Object"): {0: SOpaque("object", False)}})
    pre = [z3.ULT(vd, len(V)), z3.ULT(kind, 3), z3.Implies(kind == 1, i < 0)]
    I, exits = run_fn(funcs, "map_json_primitive", [val], pre, stubs=json_number_models(kind, u, i))
    return I, exits, (vd, kind, u, i)


# ---------------------------------------------------------------- K-take-step: one iteration of range_of_ranges from an arbitrary `current`
def k_take_step():
    funcs = load(r"range_of_ranges|or_map|try_range_into_int")
    fn = funcs["gen_expr::range_of_ranges"]
    start_bb = loop_head = None
    for n, b in fn.blocks.items():
        if b.term and b.term[0] == "call" and "try_range_into_int(" in b.term[2]:
            start_bb = n
        if b.term and b.term[0] == "call" and "as Iterator>::next(" in b.term[2]:
            loop_head = n
    cur_loc = None
    for nm, pl in fn.debug_list:
        if nm == "current":
            cur_loc = int(pl[1:])
    item_loc = None
    for lhs, rhs in fn.blocks[start_bb].stmts:
        mm = re.match(r"move \(\(_(\d+) as Some\)\.0:", rhs)
        if mm:
            item_loc = int(mm.group(1))
    if None in (start_bb, loop_head, cur_loc, item_loc):
        raise core.EngineError(f"K-take-step: anchors not found ({start_bb}, {loop_head}, {cur_loc}, {item_loc})")
    cs, ccs = sym_option("cur_s", SInt(z3.BitVec("cur_sv", 64), 64, True))
    ce, cce = sym_option("cur_e", SInt(z3.BitVec("cur_ev", 64), 64, True))
    cur = SAgg("struct", "Range", {0: cs, 1: ce, "start": cs, "end": ce})
    r, rc = sym_range(0)
    I = Interp(funcs, stubs={"try_range_into_int": stub_try_range_into_int}, unwind=3, timeout_s=120)
    exits = run_slice(I, fn, start_bb, {cur_loc: cur, item_loc: some(r)}, loop_head, pre=[ccs, cce] + rc)
    return I, exits, cur_loc


# ---------------------------------------------------------------- K-id: IdGenerator::skip / gen (ids read from an RQ document)
def k_id():
    funcs = load(r"^id_gen::<impl at [^>]*>::(skip|gen)$")
    skip = [f for f in funcs if f.endswith("::skip") and "id_gen" in f]
    gen = [f for f in funcs if f.endswith("::gen") and funcs[f].args and "IdGenerator" in funcs[f].args[0][1]]
    if len(skip) != 1 or len(gen) != 1:
        raise core.EngineError(f"K-id: skip/gen not found: {skip} {gen}")
    nxt, idv = z3.BitVec("next_id", 64), z3.BitVec("loaded_id", 64)
    out = {}
    for label, fname, args in (("skip", skip[0], 2), ("gen", gen[0], 1)):
        I = Interp(funcs, unwind=3, timeout_s=60)
        st = State()
        st.heap.append(SAgg("struct", "IdGenerator", {0: SInt(nxt, 64, False), 1: SUnit()}))
        a = [SRef(-1, ("cell", 0))] + ([SInt(idv, 64, False)] if args == 2 else [])
        st.frames.append(I.new_frame(fname, a))
        I.deadline = time.time() + 60
        I.exits = []
        I.explore(st)
        out[label] = (I, I.exits)
    return out, nxt, idv


# ---------------------------------------------------------------- K-fold: static_eval_rq_operator
def k_fold():
    register_enum("ExprKind", enum_from_source(os.path.join(core.REPO, "prqlc/prqlc/src/ir/pl/expr.rs"), "ExprKind"))
    register_enum("Literal", enum_from_source(os.path.join(core.REPO, "prqlc/prqlc-parser/src/lexer/lr.rs"), "Literal"))
    funcs = load(r"^static_eval_rq_operator$|>::into_rq_operator$")
    irq = [f for f in funcs if f.endswith("::into_rq_operator")]
    if len(irq) != 1:
        raise core.EngineError(f"K-fold: into_rq_operator body not found: {irq}")
    EK, LV = VARIANTS["ExprKind"], VARIANTS["Literal"]
    name = z3.String("op_name")
    str_eq = z3.Bool("other_literals_equal")

    def lit(tag):
        d = z3.BitVec(f"{tag}_lit", 64)
        pay = {LV.index("Integer"): {0: SInt(z3.BitVec(f"{tag}_int", 64), 64, True)}, LV.index("Boolean"): {0: SBool(z3.Bool(f"{tag}_bool"))},
               LV.index("Float"): {0: SOpaque("f64", False)}, LV.index("String"): {0: SOpaque("string", False)}}
        return SEnum("Literal", d, pay), z3.Or(*[d == LV.index(v) for v in ("Null", "Integer", "Float", "Boolean", "String")])

    def arg(tag):
        l, c = lit(tag)
        kd = z3.BitVec(f"{tag}_kind", 64)
        kind = SEnum("ExprKind", kd, {EK.index("Literal"): {0: l}, EK.index("Ident"): {0: SOpaque("ident", False)}})
        e = SAgg("struct", "Expr", {0: kind, "kind": kind, 1: SOpaque(f"{tag}_rest", False)})
        return e, [c, z3.Or(kd == EK.index("Literal"), kd == EK.index("Ident"))]
    a0, c0 = arg("a0")
    a1, c1 = arg("a1")
    rq = EK.index("RqOperator")
    kind = SEnum("ExprKind", rq, {rq: {0: SStr(name), 1: SVec([a0, a1]), "name": SStr(name), "args": SVec([a0, a1])}})
    expr = SAgg("struct", "Expr", {0: kind, "kind": kind, 1: SOpaque("rest", False)})

    def stub_expr_new(I, st, a):
        v = a[0]
        k = SEnum("ExprKind", EK.index("Literal"), {EK.index("Literal"): {0: v}})
        return SAgg("struct", "Expr", {0: k, "kind": k, 1: SOpaque("fresh", False)})

    def stub_index(I, st, a):
        r, i = a
        n = z3.simplify(i.t).as_long()
        return SRef(r.depth, ("cindex", r.place, n))

    def stub_remove(I, st, a):
        r, i = a
        from models import deref
        v = deref(I, st, r)
        n = z3.simplify(i.t).as_long()
        items = list(v.items)
        x = items.pop(n)
        I.write(st, r.depth, r.place, SVec(items))
        return x

    def stub_lit_as_ref(I, st, a):
        from models import deref
        l = deref(I, st, a[0])
        d = z3.BitVecVal(l.disc, 64) if isinstance(l.disc, int) else l.disc
        t = z3.StringVal("?")
        for i_, nm in enumerate(LV):
            t = z3.If(d == i_, z3.StringVal(nm), t)
        return SStr(t)

    def lit_eq(I, st, a, negate):
        from models import deref, is_variant
        l, r = deref(I, st, a[0]), deref(I, st, a[1])
        dl = z3.BitVecVal(l.disc, 64) if isinstance(l.disc, int) else l.disc
        dr = z3.BitVecVal(r.disc, 64) if isinstance(r.disc, int) else r.disc
        li, ri = l.pay[LV.index("Integer")][0].t, r.pay[LV.index("Integer")][0].t
        lb, rb = l.pay[LV.index("Boolean")][0].t, r.pay[LV.index("Boolean")][0].t
        # f64 payloads are opaque to the interpreter; the derived PartialEq compares them, so they get a value here
        # (reals: NaN cannot be written as a literal)
        lf, rf = z3.Real("a0_float"), z3.Real("a1_float")
        same = z3.And(dl == dr, z3.If(dl == LV.index("Null"), z3.BoolVal(True), z3.If(dl == LV.index("Integer"), li == ri,
                                     z3.If(dl == LV.index("Boolean"), lb == rb, z3.If(dl == LV.index("Float"), lf == rf, str_eq)))))
        return SBool(z3.Not(same) if negate else same)

    def stub_neg(I, st, a):
        from models import deref
        x = deref(I, st, a[0])
        mn = z3.BitVecVal(-(1 << 63), 64)
        return [(x.t == mn, ("panic", "attempt to negate with overflow")), (x.t != mn, SInt(-x.t, 64, True))]

    def stub_not(I, st, a):
        from models import deref
        return SBool(z3.Not(deref(I, st, a[0]).t))
    stubs = {"extra::<impl pl::expr::Expr>::new::<prqlc_parser::lexer::lr::Literal>": stub_expr_new,
             "<Vec<pl::expr::Expr> as std::ops::Index<usize>>::index": stub_index,
             "Vec::<pl::expr::Expr>::remove": stub_remove,
             "<prqlc_parser::lexer::lr::Literal as AsRef<str>>::as_ref": stub_lit_as_ref,
             "<&prqlc_parser::lexer::lr::Literal as PartialEq>::eq": lambda I, st, a: lit_eq(I, st, a, False),
             "<&prqlc_parser::lexer::lr::Literal as PartialEq>::ne": lambda I, st, a: lit_eq(I, st, a, True),
             "<&i64 as std::ops::Neg>::neg": stub_neg, "<&f64 as std::ops::Neg>::neg": lambda I, st, a: SOpaque("f64", False),
             "<&bool as std::ops::Not>::not": stub_not,
             "std::string::String::as_str": lambda I, st, a: a[0],
             "pl::expr::ExprKind::into_rq_operator": lambda I, st, a: ("call", irq[0], a)}
    I = Interp(funcs, stubs=stubs, unwind=4, timeout_s=120)
    exits = I.run("static_eval_rq_operator", [expr], c0 + c1)
    return I, exits, dict(name=name, str_eq=str_eq, a0=a0, a1=a1)
