"""Models for std functions the kernels call (everything else is executed from MIR bodies).
Each model: f(interp, state, args) -> value | [(cond, value|('panic', msg))...] | ('panic', msg) | ('call', fn, args)
The table is part of the claim and is listed in evidence (models_used)."""
import re

import z3

from sym import *  # noqa


def deref(I, st, v):
    while isinstance(v, SRef):
        v = I.read(st, v.depth, v.place)
    return v


def disc_term(e):
    return z3.BitVecVal(e.disc, 64) if isinstance(e.disc, int) else e.disc


def is_variant(e, idx):
    if isinstance(e.disc, int):
        return z3.BoolVal(e.disc == idx)
    return e.disc == idx


def payload(e, idx, field=0):
    if idx not in e.pay or field not in e.pay[idx]:
        raise Inconclusive(f"payload {idx}.{field} missing in {e}")
    return e.pay[idx][field]


def vite(c, a, b):
    """value-level if-then-else where both sides have the same shape; None if shapes differ"""
    if z3.is_true(c):
        return a
    if z3.is_false(c):
        return b
    if isinstance(a, SInt) and isinstance(b, SInt) and a.bits == b.bits:
        return SInt(z3.If(c, a.t, b.t), a.bits, a.signed)
    if isinstance(a, SBool) and isinstance(b, SBool):
        return SBool(z3.If(c, a.t, b.t))
    if isinstance(a, SUnit) and isinstance(b, SUnit):
        return a
    if isinstance(a, SEnum) and isinstance(b, SEnum) and a.ty == b.ty:
        d = z3.If(c, disc_term(a), disc_term(b))
        pay = {}
        for k in set(a.pay) | set(b.pay):
            pa, pb = a.pay.get(k), b.pay.get(k)
            if pa is None or pb is None:
                pay[k] = pa if pb is None else pb
                continue
            fields = {}
            for f in set(pa) | set(pb):
                if f in pa and f in pb:
                    m = vite(c, pa[f], pb[f])
                    if m is None:
                        return None
                    fields[f] = m
                else:
                    fields[f] = pa.get(f, pb.get(f))
            pay[k] = fields
        return SEnum(a.ty, d, pay)
    if isinstance(a, SAgg) and isinstance(b, SAgg) and a.kind == b.kind and set(a.f) == set(b.f):
        f = {}
        for k in a.f:
            m = vite(c, a.f[k], b.f[k])
            if m is None:
                return None
            f[k] = m
        return SAgg(a.kind, a.name, f)
    return None


def alts(c, a, b):
    m = vite(c, a, b)
    if m is not None:
        return m
    return [(c, a), (z3.Not(c), b)]


# ---------------------------------------------------------------- integers
def m_saturating_add(I, st, a):
    x, y = a
    s = x.t + y.t
    if x.signed:
        ovf = z3.Not(z3.BVAddNoOverflow(x.t, y.t, True))
        unf = z3.Not(z3.BVAddNoUnderflow(x.t, y.t))
        mx, mn = z3.BitVecVal((1 << (x.bits - 1)) - 1, x.bits), z3.BitVecVal(-(1 << (x.bits - 1)), x.bits)
        return SInt(z3.If(ovf, mx, z3.If(unf, mn, s)), x.bits, True)
    ovf = z3.Not(z3.BVAddNoOverflow(x.t, y.t, False))
    return SInt(z3.If(ovf, z3.BitVecVal((1 << x.bits) - 1, x.bits), s), x.bits, False)


def m_saturating_sub(I, st, a):
    x, y = a
    s = x.t - y.t
    if x.signed:
        ovf = z3.Not(z3.BVSubNoOverflow(x.t, y.t))
        unf = z3.Not(z3.BVSubNoUnderflow(x.t, y.t, True))
        mx, mn = z3.BitVecVal((1 << (x.bits - 1)) - 1, x.bits), z3.BitVecVal(-(1 << (x.bits - 1)), x.bits)
        return SInt(z3.If(ovf, mx, z3.If(unf, mn, s)), x.bits, True)
    unf = z3.Not(z3.BVSubNoUnderflow(x.t, y.t, False))
    return SInt(z3.If(unf, z3.BitVecVal(0, x.bits), s), x.bits, False)


def m_wrapping(op):
    def f(I, st, a):
        x, y = a
        return SInt({"add": x.t + y.t, "sub": x.t - y.t, "mul": x.t * y.t}[op], x.bits, x.signed)
    f.__name__ = f"m_wrapping_{op}"
    return f


def m_checked(op):
    def f(I, st, a):
        x, y = a
        r = I.binop({"add": "AddWithOverflow", "sub": "SubWithOverflow", "mul": "MulWithOverflow"}[op], x, y)
        ovf = r.f[1].t
        return SEnum("Option", z3.If(ovf, z3.BitVecVal(0, 64), z3.BitVecVal(1, 64)), {1: {0: r.f[0]}})
    f.__name__ = f"m_checked_{op}"
    return f


def m_checked_neg(I, st, a):
    x, = a
    mn = z3.BitVecVal(-(1 << (x.bits - 1)), x.bits)
    return SEnum("Option", z3.If(x.t == mn, z3.BitVecVal(0, 64), z3.BitVecVal(1, 64)), {1: {0: SInt(-x.t, x.bits, x.signed)}})


def _min_of(bits):
    return z3.BitVecVal(1 << (bits - 1), bits)


def m_checked_div(rem=False):
    def f(I, st, a):
        x, y = a
        bits, sg = x.bits, x.signed
        zero = y.t == 0
        if sg:
            ovf = z3.And(x.t == _min_of(bits), y.t == z3.BitVecVal(-1, bits))
            bad = z3.Or(zero, ovf)
            safe_y = z3.If(bad, z3.BitVecVal(1, bits), y.t)
            val = z3.SRem(x.t, safe_y) if rem else x.t / safe_y
        else:
            bad = zero
            safe_y = z3.If(bad, z3.BitVecVal(1, bits), y.t)
            val = z3.URem(x.t, safe_y) if rem else z3.UDiv(x.t, safe_y)
        return SEnum("Option", z3.If(bad, z3.BitVecVal(0, 64), z3.BitVecVal(1, 64)), {1: {0: SInt(val, bits, sg)}})
    f.__name__ = "m_checked_" + ("rem" if rem else "div")
    return f


def m_wrapping_neg(I, st, a):
    x = a[0]
    return SInt(-x.t, x.bits, x.signed)


def m_saturating_mul(I, st, a):
    x, y = a
    bits, sg = x.bits, x.signed
    if sg:
        w = z3.SignExt(bits, x.t) * z3.SignExt(bits, y.t)
        hi, lo = z3.BitVecVal((1 << (bits - 1)) - 1, 2 * bits), z3.BitVecVal(-(1 << (bits - 1)), 2 * bits)
        r = z3.If(w > hi, hi, z3.If(w < lo, lo, w))
    else:
        w = z3.ZeroExt(bits, x.t) * z3.ZeroExt(bits, y.t)
        hi = z3.BitVecVal((1 << bits) - 1, 2 * bits)
        r = z3.If(z3.UGT(w, hi), hi, w)
    return SInt(z3.Extract(bits - 1, 0, r), bits, sg)


def m_overflowing(op):
    def f(I, st, a):
        x, y = a
        bits, sg = x.bits, x.signed
        ext = (lambda t: z3.SignExt(bits, t)) if sg else (lambda t: z3.ZeroExt(bits, t))
        wide = {"add": ext(x.t) + ext(y.t), "sub": ext(x.t) - ext(y.t), "mul": ext(x.t) * ext(y.t)}[op]
        low = z3.Extract(bits - 1, 0, wide)
        ovf = ext(low) != wide
        return SAgg("tuple", "", {0: SInt(low, bits, sg), 1: SBool(ovf)})
    f.__name__ = "m_overflowing_" + op
    return f


def m_abs_diff(I, st, a):
    x, y = a
    lt = (x.t < y.t) if x.signed else z3.ULT(x.t, y.t)
    return SInt(z3.If(lt, y.t - x.t, x.t - y.t), x.bits, False)


def m_signum(I, st, a):
    x = a[0]
    b = x.bits
    return SInt(z3.If(x.t == 0, z3.BitVecVal(0, b), z3.If(x.t < 0, z3.BitVecVal(-1, b), z3.BitVecVal(1, b))), b, True)


def m_is_negative(I, st, a):
    return SBool(a[0].t < 0)


def m_is_positive(I, st, a):
    return SBool(a[0].t > 0)


def m_clamp(I, st, a):
    x, lo, hi = a
    lt = (lambda p, q: p < q) if x.signed else z3.ULT
    bad = lt(hi.t, lo.t)
    val = SInt(z3.If(lt(x.t, lo.t), lo.t, z3.If(lt(hi.t, x.t), hi.t, x.t)), x.bits, x.signed)
    return [(z3.Not(bad), val), (bad, ("panic", "assertion failed: min <= max"))]


def m_checked_abs(I, st, a):
    x = a[0]
    bad = x.t == _min_of(x.bits)
    return SEnum("Option", z3.If(bad, z3.BitVecVal(0, 64), z3.BitVecVal(1, 64)), {1: {0: SInt(z3.If(x.t < 0, -x.t, x.t), x.bits, True)}})


def m_saturating_neg(I, st, a):
    x = a[0]
    b = x.bits
    return SInt(z3.If(x.t == _min_of(b), z3.BitVecVal((1 << (b - 1)) - 1, b), -x.t), b, True)


def m_saturating_abs(I, st, a):
    x = a[0]
    b = x.bits
    return SInt(z3.If(x.t == _min_of(b), z3.BitVecVal((1 << (b - 1)) - 1, b), z3.If(x.t < 0, -x.t, x.t)), b, True)


def m_wrapping_abs(I, st, a):
    x = a[0]
    return SInt(z3.If(x.t < 0, -x.t, x.t), x.bits, True)


# ---------------------------------------------------------------- Option / Result without closures
def m_ok_or(I, st, a):
    o, e = a
    d = disc_term(o)
    pay = {1: {0: e}}
    if 1 in o.pay:
        pay[0] = dict(o.pay[1])
    return SEnum("Result", z3.If(d == 1, z3.BitVecVal(0, 64), z3.BitVecVal(1, 64)) if not isinstance(o.disc, int) else (0 if o.disc == 1 else 1), pay)


def m_result_ok(I, st, a):
    r = a[0]
    d = disc_term(r)
    pay = {}
    if 0 in r.pay:
        pay[1] = dict(r.pay[0])
    return SEnum("Option", z3.If(d == 0, z3.BitVecVal(1, 64), z3.BitVecVal(0, 64)) if not isinstance(r.disc, int) else (1 if r.disc == 0 else 0), pay)


def m_result_err(I, st, a):
    r = a[0]
    d = disc_term(r)
    pay = {}
    if 1 in r.pay:
        pay[1] = dict(r.pay[1])
    return SEnum("Option", z3.If(d == 1, z3.BitVecVal(1, 64), z3.BitVecVal(0, 64)) if not isinstance(r.disc, int) else (1 if r.disc == 1 else 0), pay)


def m_option_or(I, st, a):
    x, y = a
    return alts(is_variant(x, 1), x, y)


def m_option_and(I, st, a):
    x, y = a
    return alts(is_variant(x, 1), y, none())


def m_option_take(I, st, a):
    r = a[0]
    v = deref(I, st, r)
    I.write(st, r.depth, r.place, none())
    return v


def m_result_unwrap_or(I, st, a):
    r, d = a
    if 0 in r.pay and 0 in r.pay[0]:
        return alts(is_variant(r, 0), r.pay[0][0], d)
    return d


def m_leading_zeros(I, st, a):
    x, = a
    n = x.bits
    r = z3.BitVecVal(n, 32)
    for i in range(n):          # bit i set (from LSB) => leading zeros = n-1-i ; highest set bit wins
        r = z3.If(z3.Extract(i, i, x.t) == 1, z3.BitVecVal(n - 1 - i, 32), r)
    return SInt(r, 32, False)


def m_abs(I, st, a):
    x, = a
    mn = z3.BitVecVal(-(1 << (x.bits - 1)), x.bits)
    return [(x.t == mn, ("panic", "attempt to negate with overflow (abs)")), (x.t != mn, SInt(z3.If(x.t < 0, -x.t, x.t), x.bits, True))]


def m_unsigned_abs(I, st, a):
    x, = a
    return SInt(z3.If(x.t < 0, -x.t, x.t), x.bits, False)


def m_min(I, st, a):
    x, y = [deref(I, st, v) for v in a]
    lt = (x.t < y.t) if x.signed else z3.ULT(x.t, y.t)
    return SInt(z3.If(lt, x.t, y.t), x.bits, x.signed)     # Ord::min returns self when equal; same value


def m_max(I, st, a):
    x, y = [deref(I, st, v) for v in a]
    gt = (x.t > y.t) if x.signed else z3.UGT(x.t, y.t)
    return SInt(z3.If(gt, x.t, y.t), x.bits, x.signed)


def m_int_cmp(op):
    def f(I, st, a):
        x, y = [deref(I, st, v) for v in a]
        if isinstance(x, SInt):
            return I.binop(op, x, y)
        if isinstance(x, SBool):
            return I.binop(op, x, y)
        if isinstance(x, SEnum) and isinstance(y, SEnum) and not any(x.pay.values()) and not any(y.pay.values()):
            dx, dy = disc_term(x), disc_term(y)
            return I.binop(op, SInt(dx, 64, True), SInt(dy, 64, True))
        if isinstance(x, SStr) and isinstance(y, SStr) and op in ("Eq", "Ne"):
            return str_eq(x, y, op == "Ne")
        raise Inconclusive(f"comparison {op} on {x}, {y}")
    f.__name__ = f"m_cmp_{op}"
    return f


def str_eq(x, y, negate=False):
    if isinstance(x.v, str) and isinstance(y.v, str):
        r = z3.BoolVal(x.v == y.v)
    elif isinstance(x.v, str) or isinstance(y.v, str):
        s, c = (y, x) if isinstance(x.v, str) else (x, y)
        r = s.v == z3.StringVal(c.v)
    else:
        r = x.v == y.v
    return SBool(z3.Not(r) if negate else r)


# ---------------------------------------------------------------- Option / Result
def m_unwrap_or(I, st, a):
    o, d = a
    return alts(is_variant(o, 1), payload(o, 1) if 1 in o.pay else d, d)


def m_unwrap(I, st, a):
    o = a[0]
    okidx = 1 if o.ty == "Option" else 0
    out = []
    if okidx in o.pay and 0 in o.pay[okidx]:
        out.append((is_variant(o, okidx), payload(o, okidx)))
    elif okidx in o.pay or isinstance(o.disc, int) and o.disc == okidx:
        out.append((is_variant(o, okidx), SUnit()))
    out.append((z3.Not(is_variant(o, okidx)), ("panic", "called `unwrap()`/`expect()` on a None/Err value")))
    return out


def m_zip(I, st, a):
    x, y = a
    both = z3.And(is_variant(x, 1), is_variant(y, 1))
    pay = {}
    if 1 in x.pay and 1 in y.pay:
        pay = {1: {0: SAgg("tuple", "", {0: payload(x, 1), 1: payload(y, 1)})}}
    return SEnum("Option", z3.If(both, z3.BitVecVal(1, 64), z3.BitVecVal(0, 64)), pay)


def m_is_some(I, st, a):
    return SBool(is_variant(deref(I, st, a[0]), 1))


def m_is_none(I, st, a):
    return SBool(is_variant(deref(I, st, a[0]), 0))


def m_is_ok(I, st, a):
    return SBool(is_variant(deref(I, st, a[0]), 0))


def m_is_err(I, st, a):
    return SBool(is_variant(deref(I, st, a[0]), 1))


def m_branch(I, st, a):
    v = a[0]
    if isinstance(v, SOpaque):
        # the value of an unmodelled callee: either outcome
        return [(z3.BoolVal(True), SEnum("ControlFlow", 0, {0: {0: SOpaque(v.label + "?ok", v.taint)}})),
                (z3.BoolVal(True), SEnum("ControlFlow", 1, {1: {0: SOpaque(v.label + "?residual", v.taint)}}))]
    if v.ty == "Result":
        pay = {}
        if 0 in v.pay:
            pay[0] = dict(v.pay[0])
        pay[1] = {0: SEnum("Result", 1, {1: dict(v.pay.get(1, {}))})}
        return SEnum("ControlFlow", disc_term(v) if not isinstance(v.disc, int) else v.disc, pay)
    if v.ty == "Option":   # Some -> Continue(v), None -> Break(None)
        d = v.disc
        nd = (1 - d) if isinstance(d, int) else z3.If(d == 1, z3.BitVecVal(0, 64), z3.BitVecVal(1, 64))
        pay = {1: {0: SEnum("Option", 0, {})}}
        if 1 in v.pay:
            pay[0] = dict(v.pay[1])
        return SEnum("ControlFlow", nd, pay)
    raise Inconclusive(f"Try::branch on {v}")


def m_from_residual(I, st, a):
    return a[0]     # Err(e) -> Err(From::from(e)) with identity conversion; None -> None


def m_identity(I, st, a):
    return a[0]


def zstr(v):
    return z3.StringVal(v.v) if isinstance(v.v, str) else v.v


def m_strip_prefix(I, st, a):
    s, p = [deref(I, st, v) for v in a]
    zs, zp = zstr(s), zstr(p)
    has = z3.PrefixOf(zp, zs)
    rest = z3.SubString(zs, z3.Length(zp), z3.Length(zs) - z3.Length(zp))
    return SEnum("Option", z3.If(has, z3.BitVecVal(1, 64), z3.BitVecVal(0, 64)), {1: {0: SStr(rest)}})


_fresh_ctr = [0]


def _fresh_str(tag):
    _fresh_ctr[0] += 1
    return z3.String(f"{tag}!{_fresh_ctr[0]}")


def m_starts_with(I, st, a):
    s, p = [deref(I, st, v) for v in a]
    return SBool(z3.PrefixOf(zstr(p), zstr(s)))


def m_ends_with(I, st, a):
    s, p = [deref(I, st, v) for v in a]
    return SBool(z3.SuffixOf(zstr(p), zstr(s)))


def m_str_contains(I, st, a):
    s, p = [deref(I, st, v) for v in a]
    return SBool(z3.Contains(zstr(s), zstr(p)))


def m_strip_suffix(I, st, a):
    s, p = [deref(I, st, v) for v in a]
    zs, zp = zstr(s), zstr(p)
    has = z3.SuffixOf(zp, zs)
    rest = z3.SubString(zs, 0, z3.Length(zs) - z3.Length(zp))
    return SEnum("Option", z3.If(has, z3.BitVecVal(1, 64), z3.BitVecVal(0, 64)), {1: {0: SStr(rest)}})


def m_trim_start_matches(I, st, a):
    """s = p^k ++ r with r not starting with p (p a non-empty string pattern); r is a fresh string tied to s by the path condition"""
    s, p = [deref(I, st, v) for v in a]
    if not (isinstance(p, SStr) and isinstance(p.v, str) and p.v):
        raise Inconclusive(f"trim_start_matches with pattern {p}")
    zs, zp = zstr(s), zstr(p)
    pre, r = _fresh_str("trimmed_prefix"), _fresh_str("trim_rest")
    cond = z3.And(zs == z3.Concat(pre, r), z3.InRe(pre, z3.Star(z3.Re(zp))), z3.Not(z3.PrefixOf(zp, r)))
    return [(cond, SStr(r))]


def m_trim_end_matches(I, st, a):
    s, p = [deref(I, st, v) for v in a]
    if not (isinstance(p, SStr) and isinstance(p.v, str) and p.v):
        raise Inconclusive(f"trim_end_matches with pattern {p}")
    zs, zp = zstr(s), zstr(p)
    r, suf = _fresh_str("trim_rest"), _fresh_str("trimmed_suffix")
    cond = z3.And(zs == z3.Concat(r, suf), z3.InRe(suf, z3.Star(z3.Re(zp))), z3.Not(z3.SuffixOf(zp, r)))
    return [(cond, SStr(r))]


def m_str_is_empty(I, st, a):
    s = deref(I, st, a[0])
    if isinstance(s, SStr):
        return SBool(z3.Length(zstr(s)) == 0)
    raise Inconclusive(f"is_empty of {s}")


def m_to_string(I, st, a):
    v = deref(I, st, a[0])
    if isinstance(v, SInt):
        return SAgg("string_of", "int", {0: v})       # injective image of the integer's decimal spelling
    if isinstance(v, SStr):
        return v
    return SOpaque("string", taint=False)


def default_impl(I, ty):
    """in-crate `impl Default for ty`"""
    short = ty.split("::")[-1]
    c = [f for f in I.funcs if re.search(r"<impl at [^>]*>::default$", f) and (I.funcs[f].ret.split("::")[-1] == short)]
    if len(c) != 1:
        raise Inconclusive(f"Default impl for {ty}: candidates {c}")
    return c[0]


def m_unwrap_or_default(I, st, a):
    o = a[0]
    mm = re.search(r"Option::<(.+)>::unwrap_or_default$", I.strip_turbofish(I.current_callee)) or re.search(r"Option::<(.+)>::unwrap_or_default", I.current_callee)
    ty = mm.group(1)
    d = I.eval_pure(default_impl(I, ty), [])
    if 1 in o.pay and 0 in o.pay[1]:
        return alts(is_variant(o, 1), payload(o, 1), d)
    return d


def m_clone(I, st, a):
    return deref(I, st, a[0])


def m_unit(I, st, a):
    return SUnit()


def m_range_default(I, st, a):
    return SAgg("struct", "Range", {0: none(), 1: none(), "start": none(), "end": none()})


def m_into_iter(I, st, a):
    v = a[0]
    if isinstance(v, SVec):
        return SIter(v.items, 0)
    if isinstance(v, SIter):
        return v
    raise Inconclusive(f"into_iter of {v}")


def m_iter_next(I, st, a):
    r = a[0]
    it = deref(I, st, r)
    if not isinstance(it, SIter):
        raise Inconclusive(f"next on {it}")
    if it.pos < len(it.items):
        item = it.items[it.pos]
        I.write(st, r.depth, r.place, SIter(it.items, it.pos + 1))
        return some(item)
    return none()


def m_vec_new(I, st, a):
    return SVec([])


def m_vec_len(I, st, a):
    v = deref(I, st, a[0])
    items = v.items if isinstance(v, (SVec, SIter)) else None
    if items is None:
        raise Inconclusive(f"len of {v}")
    return const_int(len(items), 64, False)


def m_vec_is_empty(I, st, a):
    v = deref(I, st, a[0])
    return SBool(z3.BoolVal(len(v.items) == 0))


def m_vec_push(I, st, a):
    r, x = a
    v = deref(I, st, r)
    I.write(st, r.depth, r.place, SVec(v.items + [x]))
    return SUnit()


def m_opaque_untainted(label):
    def f(I, st, a):
        return SOpaque(label, taint=False)
    f.__name__ = f"m_opaque_{label}"
    return f


def m_panic(I, st, a):
    msg = a[0].v if a and isinstance(a[0], SStr) else "explicit panic"
    return ("panic", str(msg))


TABLE = [
    (r"^core::num::<impl [iu]\w+>::saturating_add$", m_saturating_add),
    (r"^core::num::<impl [iu]\w+>::saturating_sub$", m_saturating_sub),
    (r"^core::num::<impl [iu]\w+>::wrapping_add$", m_wrapping("add")),
    (r"^core::num::<impl [iu]\w+>::wrapping_sub$", m_wrapping("sub")),
    (r"^core::num::<impl [iu]\w+>::wrapping_mul$", m_wrapping("mul")),
    (r"^core::num::<impl [iu]\w+>::checked_add$", m_checked("add")),
    (r"^core::num::<impl [iu]\w+>::checked_sub$", m_checked("sub")),
    (r"^core::num::<impl [iu]\w+>::checked_mul$", m_checked("mul")),
    (r"^core::num::<impl i\w+>::checked_neg$", m_checked_neg),
    (r"^core::num::<impl [iu]\w+>::checked_div$", m_checked_div(False)),
    (r"^core::num::<impl [iu]\w+>::checked_rem$", m_checked_div(True)),
    (r"^core::num::<impl [iu]\w+>::wrapping_neg$", m_wrapping_neg),
    (r"^core::num::<impl [iu]\w+>::saturating_mul$", m_saturating_mul),
    (r"^core::num::<impl [iu]\w+>::overflowing_add$", m_overflowing("add")),
    (r"^core::num::<impl [iu]\w+>::overflowing_sub$", m_overflowing("sub")),
    (r"^core::num::<impl [iu]\w+>::overflowing_mul$", m_overflowing("mul")),
    (r"^core::num::<impl [iu]\w+>::abs_diff$", m_abs_diff),
    (r"^core::num::<impl i\w+>::signum$", m_signum),
    (r"^core::num::<impl i\w+>::is_negative$", m_is_negative),
    (r"^core::num::<impl i\w+>::is_positive$", m_is_positive),
    (r"^core::num::<impl i\w+>::checked_abs$", m_checked_abs),
    (r"^core::num::<impl i\w+>::saturating_neg$", m_saturating_neg),
    (r"^core::num::<impl i\w+>::saturating_abs$", m_saturating_abs),
    (r"^core::num::<impl i\w+>::wrapping_abs$", m_wrapping_abs),
    (r"^<[iu]\w+ as Ord>::clamp$|^(std|core)::cmp::Ord::clamp$", m_clamp),
    (r"^(std|core)::option::Option::<.*>::ok_or$", m_ok_or),
    (r"^(std|core)::result::Result::<.*>::ok$", m_result_ok),
    (r"^(std|core)::result::Result::<.*>::err$", m_result_err),
    (r"^(std|core)::option::Option::<.*>::or$", m_option_or),
    (r"^(std|core)::option::Option::<.*>::and$", m_option_and),
    (r"^(std|core)::option::Option::<.*>::take$", m_option_take),
    (r"^(std|core)::option::Option::<.*>::(copied|cloned|as_ref|as_mut|as_deref)$", m_identity),
    (r"^(std|core)::result::Result::<.*>::unwrap_or$", m_result_unwrap_or),
    (r"^core::num::<impl [iu]\w+>::leading_zeros$", m_leading_zeros),
    (r"^core::num::<impl i\w+>::abs$", m_abs),
    (r"^core::num::<impl i\w+>::unsigned_abs$", m_unsigned_abs),
    (r"^<[iu]\w+ as Ord>::min$|^std::cmp::min$|^core::cmp::min$", m_min),
    (r"^<[iu]\w+ as Ord>::max$|^std::cmp::max$|^core::cmp::max$", m_max),
    (r"^<.* as PartialEq(<.*>)?>::eq$", m_int_cmp("Eq")),
    (r"^<.* as PartialEq(<.*>)?>::ne$", m_int_cmp("Ne")),
    (r"^<.* as PartialOrd(<.*>)?>::lt$", m_int_cmp("Lt")),
    (r"^<.* as PartialOrd(<.*>)?>::le$", m_int_cmp("Le")),
    (r"^<.* as PartialOrd(<.*>)?>::gt$", m_int_cmp("Gt")),
    (r"^<.* as PartialOrd(<.*>)?>::ge$", m_int_cmp("Ge")),
    (r"^(std|core)::option::Option::<.*>::unwrap_or$", m_unwrap_or),
    (r"^(std|core)::option::Option::<.*>::(unwrap|expect)$", m_unwrap),
    (r"^(std|core)::result::Result::<.*>::(unwrap|expect)$", m_unwrap),
    (r"^(std|core)::option::Option::<.*>::zip$", m_zip),
    (r"^(std|core)::option::Option::<.*>::is_some$", m_is_some),
    (r"^(std|core)::option::Option::<.*>::is_none$", m_is_none),
    (r"^(std|core)::result::Result::<.*>::is_ok$", m_is_ok),
    (r"^(std|core)::result::Result::<.*>::is_err$", m_is_err),
    (r"^<.* as ((std|core)::ops::)?Try>::branch$", m_branch),
    (r"^<.* as ((std|core)::ops::)?FromResidual<.*>>::from_residual$", m_from_residual),
    (r"^<.* as ((std|core)::convert::)?(Into|From)<.*>>::(into|from)$", m_identity),
    (r"^<.* as Clone>::clone$", m_clone),
    (r"^<.* as ((std|core)::ops::)?Deref(Mut)?>::deref(_mut)?$", m_identity),
    (r"^(std|core)::mem::drop::<.*>$|^(std|core)::ptr::drop_in_place", m_unit),
    (r"^log::|^<.* as log::", m_unit),
    (r"^<prqlc_parser::generic::Range<.*> as (std::default::)?Default>::default$", m_range_default),
    (r"^<Vec<.*> as IntoIterator>::into_iter$|^<std::vec::IntoIter<.*> as IntoIterator>::into_iter$", m_into_iter),
    (r"^<std::vec::IntoIter<.*> as Iterator>::next$", m_iter_next),
    (r"^Vec::<.*>::new$", m_vec_new),
    (r"^Vec::<.*>::len$", m_vec_len),
    (r"^Vec::<.*>::is_empty$", m_vec_is_empty),
    (r"^Vec::<.*>::push$", m_vec_push),
    (r"^(std|core)::panicking::|^(std::rt::)?begin_panic|^core::panicking::panic", m_panic),
    (r"^<.* as ToString>::to_string$", m_to_string),
    (r"^alloc::fmt::format$|^std::fmt::format$|^format$", m_opaque_untainted("string")),
    (r"^Box::<.*>::new$", m_identity),
    (r"^core::str::<impl str>::strip_prefix", m_strip_prefix),
    (r"^core::str::<impl str>::strip_suffix", m_strip_suffix),
    (r"^core::str::<impl str>::starts_with", m_starts_with),
    (r"^core::str::<impl str>::ends_with", m_ends_with),
    (r"^core::str::<impl str>::contains", m_str_contains),
    (r"^core::str::<impl str>::trim_start_matches", m_trim_start_matches),
    (r"^core::str::<impl str>::trim_end_matches", m_trim_end_matches),
    (r"^core::str::<impl str>::is_empty$", m_str_is_empty),
    (r"^(std|core)::option::Option::<.*>::unwrap_or_default$", m_unwrap_or_default),
]
_COMPILED = [(re.compile(p), f) for p, f in TABLE]


def _camel(snake):
    return "".join(w.capitalize() for w in snake.split("_"))


def m_enum_is(I, st, a):
    """EnumAsInner / strum `is_<variant>` on an enum whose variant order is registered"""
    v = deref(I, st, a[0])
    m = re.search(r"::is_(\w+)$", I.strip_turbofish(I.current_callee))
    if not (isinstance(v, SEnum) and m and v.ty in VARIANTS and _camel(m.group(1)) in VARIANTS[v.ty]):
        raise Inconclusive(f"is_<variant> on {v} ({I.current_callee})")
    return SBool(is_variant(v, VARIANTS[v.ty].index(_camel(m.group(1)))))


def m_enum_as(I, st, a):
    """EnumAsInner `as_<variant>() -> Option<&T>` (single-field variants)"""
    r = a[0]
    v = deref(I, st, r)
    m = re.search(r"::as_(\w+)$", I.strip_turbofish(I.current_callee))
    if not (isinstance(v, SEnum) and m and v.ty in VARIANTS and _camel(m.group(1)) in VARIANTS[v.ty]):
        raise Inconclusive(f"as_<variant> on {v} ({I.current_callee})")
    idx = VARIANTS[v.ty].index(_camel(m.group(1)))
    if idx not in v.pay or 0 not in v.pay[idx]:
        return SEnum("Option", z3.If(is_variant(v, idx), z3.BitVecVal(1, 64), z3.BitVecVal(0, 64)), {1: {0: SOpaque("variant payload", taint=True)}})
    return SEnum("Option", z3.If(is_variant(v, idx), z3.BitVecVal(1, 64), z3.BitVecVal(0, 64)), {1: {0: v.pay[idx][0]}})


def lookup(name):
    for p, f in _COMPILED:
        if p.search(name):
            return f
    if re.search(r"^[\w:]+::is_[a-z_0-9]+$", name) and not name.startswith(("std::", "core::")):
        return m_enum_is
    if re.search(r"^[\w:]+::as_[a-z_0-9]+$", name) and not name.startswith(("std::", "core::")):
        return m_enum_as
    return None
