"""K-numbase: the value of a prefixed integer literal (0b / 0o / 0x) - C08, reading side.

The combinators around it (prefix, optional underscore, `repeated().at_least(1).at_most(max)`) are chumsky code and are not
executed. What IS executed, from the prqlc-parser MIR of the current tree:
  * the three call sites `binary_number`, `octal_number`, `hexadecimal_number`: the constants they pass (prefix, base, max_digits)
    are read from their MIR call statement;
  * each call site's digit predicate closure (`|c| *c == '0' || *c == '1'`, `('0'..='7').contains(c)`, `c.is_ascii_hexdigit()`),
    executed on a symbolic character - its verdict IS the precondition on every digit;
  * the conversion closure of `parse_number_with_base` (`i64::from_str_radix(digits, base).map(..).unwrap_or(..)`), executed on a
    digit string of every length 1..max_digits with all digits symbolic.
Decided by z3 per exit path: the closure returns Literal::Integer(v) with v the positional value of the digits in that base
(the documented meaning of the spelling); a model is replayed through the real lexer.

Model local to this kernel: `from_str_radix` of every integer type (core): Ok(value) iff every character is a digit of the
radix and the value fits the type, else Err; RangeInclusive::<char>::{new,contains}; Result::map / Result::unwrap_or.
"""
import re
import time

import z3

from sym import *  # noqa
import models
from sqlstr import Txt

W = 80          # width of the positional value (12 hex digits need 48 bits, 32 binary digits 32)


def digit_value(c, radix):
    """(is a digit of the radix, value) for a 32-bit character term; letters in either case, as core does"""
    d09 = z3.And(z3.UGE(c, 48), z3.ULE(c, 57))
    daz = z3.And(z3.UGE(c, 97), z3.ULE(c, 122))
    dAZ = z3.And(z3.UGE(c, 65), z3.ULE(c, 90))
    v = z3.If(d09, c - 48, z3.If(daz, c - 87, z3.If(dAZ, c - 55, z3.BitVecVal(99, 32))))
    return z3.ULT(v, radix), v


def eval_pred(funcs, pats, name, args_builder):
    """run a (possibly branching) bool-valued body to a single z3 Bool: Or over its return paths of (path condition and value)"""
    I = Interp(funcs, unwind=8, timeout_s=30)
    I.stub_patterns = pats
    I.lazy = False
    st = State()
    args = args_builder(st)
    st.frames.append(I.new_frame(name, args))
    I.deadline = time.time() + 30
    I.exits = []
    I.explore(st)
    terms = []
    for e in I.exits:
        if e.kind != "return" or not isinstance(e.value, SBool):
            raise Inconclusive(f"K-numbase: predicate {name} has exit {e.kind} {e.msg}")
        terms.append(z3.And(*e.pc, e.value.t) if e.pc else e.value.t)
    return z3.Or(*terms) if terms else z3.BoolVal(False), I


def stubs():
    def m_from_str_radix(I, st, a):
        s = models.deref(I, st, a[0])
        m = re.search(r"<impl ([iu])(\d+|size)>::from_str_radix", I.current_callee)
        if not isinstance(s, Txt) or not m:
            raise Inconclusive(f"K-numbase: from_str_radix({s}) via {I.current_callee}")
        signed = m.group(1) == "i"
        bits = 64 if m.group(2) == "size" else int(m.group(2))
        radix = a[1].t
        n = z3.simplify(s.n).as_long()
        if n == 0:
            return SEnum("Result", 1, {1: {0: SOpaque("ParseIntError", False)}})
        val = z3.BitVecVal(0, W)
        okd = []
        for c in s.ch[:n]:
            isd, v = digit_value(c, radix)
            okd.append(isd)
            val = val * z3.ZeroExt(W - 32, radix) + z3.ZeroExt(W - 32, v)
        lim = (1 << (bits - 1)) - 1 if signed else (1 << bits) - 1
        fits = z3.ULE(val, z3.BitVecVal(lim, W))
        ok = z3.And(fits, *okd)
        return [(ok, SEnum("Result", 0, {0: {0: SInt(z3.Extract(bits - 1, 0, val), bits, signed)}})),
                (z3.Not(ok), SEnum("Result", 1, {1: {0: SOpaque("ParseIntError", False)}}))]

    def apply_fn(I, st, f, v):
        f = models.deref(I, st, f) if isinstance(f, SRef) else f
        if isinstance(f, SFn):
            segs = [x for x in re.sub(r"<[^<>]*>", "", f.name).split("::") if x]
            if len(segs) >= 2 and segs[-2] in VARIANTS and segs[-1] in VARIANTS[segs[-2]]:
                return mk_enum(segs[-2], segs[-1], {0: v})
            raise Inconclusive(f"K-numbase: map with {f}")
        if isinstance(f, SAgg) and f.kind == "closure":
            body = I.closure_body(f.name)
            if body is None:
                raise Inconclusive(f"K-numbase: closure body of {f.name}")
            sub = Interp(I.funcs, I.stubs, I.hints, I.unwind)
            sub.stub_patterns = I.stub_patterns
            sub.lazy = getattr(I, "lazy", True)
            s2 = State()
            s2.heap.append(f)
            s2.frames.append(sub.new_frame(body, [SRef(-1, ("cell", 0)) if sub.funcs[body].args[0][1].startswith("&") else f, v]))
            sub.deadline = time.time() + 30
            sub.exits = []
            sub.explore(s2)
            rets = [e for e in sub.exits if e.kind == "return"]
            if len(sub.exits) != 1 or len(rets) != 1 or any(not z3.is_true(c) for c in rets[0].pc):
                raise Inconclusive(f"K-numbase: closure {f.name} is not straight-line")
            return rets[0].value
        raise Inconclusive(f"K-numbase: map with {f}")

    def m_result_map(I, st, a):
        r, f = a
        if not (isinstance(r, SEnum) and isinstance(r.disc, int)):
            raise Inconclusive("K-numbase: map on a symbolic Result")
        if r.disc == 1:
            return r
        return SEnum("Result", 0, {0: {0: apply_fn(I, st, f, r.pay[0][0])}})

    def m_result_unwrap_or(I, st, a):
        r, d = a
        if not (isinstance(r, SEnum) and isinstance(r.disc, int)):
            raise Inconclusive("K-numbase: unwrap_or on a symbolic Result")
        return r.pay[0][0] if r.disc == 0 else d

    def m_ri_new(I, st, a):
        return SAgg("struct", "RangeInclusive", {0: a[0], 1: a[1]})

    def m_ri_contains(I, st, a):
        r, c = models.deref(I, st, a[0]), models.deref(I, st, a[1])
        return SBool(z3.And(z3.ULE(r.f[0].t, c.t), z3.ULE(c.t, r.f[1].t)))

    def m_is_hexdigit(I, st, a):
        c = models.deref(I, st, a[0])
        isd, _ = digit_value(c.t, z3.BitVecVal(16, 32))
        return SBool(isd)

    def m_is_digit(I, st, a):
        c = models.deref(I, st, a[0])
        return SBool(z3.And(z3.UGE(c.t, 48), z3.ULE(c.t, 57)))

    return [
        (r"^core::num::<impl [iu](\d+|size)>::from_str_radix$", m_from_str_radix),
        (r"^(std::result::|core::result::)?Result::<.*>::map$", m_result_map),
        (r"^(std::result::|core::result::)?Result::<.*>::unwrap_or$", m_result_unwrap_or),
        (r"^(std|core)::ops::RangeInclusive::<char>::new$", m_ri_new),
        (r"^(std|core)::ops::RangeInclusive::<char>::contains$", m_ri_contains),
        (r"^(core::)?char::methods::<impl char>::is_ascii_hexdigit$", m_is_hexdigit),
        (r"^(core::)?char::methods::<impl char>::is_ascii_digit$", m_is_digit),
    ]


SITES = ["binary_number", "octal_number", "hexadecimal_number"]


def check_numbase(R, drv, tier):
    import core
    import kernels
    from kchecks import _account
    t0 = time.time()
    try:
        register_enum("Literal", enum_from_source(__import__("os").path.join(core.REPO, "prqlc/prqlc-parser/src/lexer/lr.rs"), "Literal"))
        rx = r"^(parse_number_with_base(::\{closure#\d+\})+|(%s)(::\{closure#\d+\})*)($|::promoted)" % "|".join(SITES)
        funcs = kernels.load_parser(rx)
        conv = "parse_number_with_base::{closure#0}"
        if conv not in funcs:
            raise Inconclusive("conversion closure of parse_number_with_base not found")
        pats = [(re.compile(p), f) for p, f in stubs()]
        nq = nviol = 0
        for site in SITES:
            fn = funcs.get(site)
            if fn is None:
                raise Inconclusive(f"{site} not found")
            call = None
            for b in fn.blocks.values():
                if b.term and b.term[0] == "call" and "parse_number_with_base" in b.term[2]:
                    call = b.term[2]
            m = re.search(r'\(const "([^"]*)", const (\d+)_u32, const (\d+)_usize', call or "")
            if not m:
                raise Inconclusive(f"{site}: call of parse_number_with_base not understood: {call}")
            prefix, base, maxd = m.group(1), int(m.group(2)), int(m.group(3))
            pred = site + "::{closure#0}"
            if pred not in funcs:
                raise Inconclusive(f"{site}: digit predicate closure not found")
            for n in range(1, maxd + 1):
                ch = [z3.BitVec(f"{site}_d{i}", 32) for i in range(n)]
                pre = []
                for c in ch:
                    def build(st, c=c):
                        st.heap.append(SAgg("closure", "", {}))
                        st.heap.append(SInt(c, 32, False))
                        return [SRef(-1, ("cell", 0)), SRef(-1, ("cell", 1))]
                    p, Ip = eval_pred(funcs, pats, pred, build)
                    pre.append(p)
                I = Interp(funcs, unwind=8, timeout_s=60)
                I.stub_patterns = pats
                I.lazy = False
                st = State()
                st.pc = list(pre)
                st.heap.append(SAgg("closure", "", {0: SInt(z3.BitVecVal(base, 32), 32, False)}))
                st.frames.append(I.new_frame(conv, [SRef(-1, ("cell", 0)), Txt(ch, z3.BitVecVal(n, 64), "digits")]))
                I.deadline = time.time() + 60
                I.exits = []
                I.explore(st)
                if site == SITES[-1] and n == maxd:
                    _account(R, I, "K-numbase")
                    _account(R, Ip, "K-numbase")
                want = z3.BitVecVal(0, W)
                for c in ch:
                    _, v = digit_value(c, z3.BitVecVal(base, 32))
                    want = want * base + z3.ZeroExt(W - 32, v)
                idx_int = VARIANTS["Literal"].index("Integer")
                good = 0
                for e in I.exits:
                    if e.kind == "return" and isinstance(e.value, SEnum) and e.value.ty == "Literal" and e.value.disc == idx_int and isinstance(e.value.pay[idx_int][0], SInt):
                        got = e.value.pay[idx_int][0]
                        goal = z3.SignExt(W - got.bits, got.t) != want
                    elif e.kind in ("return", "panic"):
                        goal = z3.BoolVal(True)
                    else:
                        R.engine_error(f"K-numbase: exit {e.kind} {e.msg}")
                        continue
                    v, model, dt = kernels.check(e.pc, goal, timeout_ms=30000)
                    nq += 1
                    R.q(v, dt)
                    if v == "unknown":
                        R.engine_error("K-numbase: unknown")
                    if v == "unsat":
                        good += 1
                    if v != "sat":
                        continue
                    digits = "".join(chr(model.eval(c, model_completion=True).as_long()) for c in ch)
                    src = prefix + digits
                    expect = int(digits, base)
                    r = drv.req(op="lex", prql=src)
                    toks = r.get("tokens") or []
                    lit = toks[1]["kind"].get("Literal") if r.get("ok") and len(toks) == 2 and isinstance(toks[1].get("kind"), dict) else None
                    if lit == {"Integer": expect}:
                        R.engine_error(f"ENCODER-MISMATCH K-numbase: the model literal {src} lexes as expected in the real lexer")
                        continue
                    nviol += 1
                    R.violation({"engine": "mirsym", "kernel": "K-numbase", "kind": "number_value", "base": base},
                                f"K-numbase: the literal {src} denotes {expect}; the lexer gives {str(lit if lit is not None else r.get('errors') or toks)[:120]}",
                                {"prql": src, "text": str(expect), "lexed": str(lit), "expect_token": {"Literal": {"Integer": expect}}})
                if good == 0 and nviol == 0:
                    R.engine_error(f"K-numbase: {site} with {n} digits has no accepting path (vacuous)")
    except Inconclusive as e:
        R.engine_error(f"K-numbase: {e}")
        return
    R.sample({"kernel": "K-numbase", "queries": nq, "property": "for 0b (<= 32 digits), 0o (<= 12) and 0x (<= 12): every digit string the call site's own predicate admits "
              "is converted to its positional value", "wall_s": round(time.time() - t0, 2)})
    R.cov.setdefault("bounds", {})["K-numbase"] = "all digit strings of every admitted length (max_digits read from the call sites); prefix/underscore/repetition combinators not executed"
    core.log(f"[K-numbase] {nq} queries, {nviol} violations in {time.time()-t0:.1f}s")


def le_decimal(dv, bound):
    """digit values (most significant first) denote a number <= bound: lexicographic comparison of the zero-padded digit strings"""
    k = str(bound)
    n = max(len(dv), len(k))
    a = [z3.BitVecVal(0, 32)] * (n - len(dv)) + list(dv)
    b = [int(x) for x in "0" * (n - len(k)) + k]
    res = z3.BoolVal(True)                  # all digits equal: <=
    for x, y in reversed(list(zip(a, b))):
        res = z3.Or(z3.ULT(x, y), z3.And(x == y, res))
    return res


# ---------------------------------------------------------------- K-numdec
def check_numdec(R, drv, tier):
    """K-numdec (C08): the closure that turns the three matched parts of a decimal spelling (integer part, fraction, exponent) into a
    Literal - `number::{closure#7}` with its underscore filter closure - executed from the prqlc-parser MIR. The parts' shapes are
    enumerated (lengths, underscore positions, exponent letter and sign), every digit is symbolic.
    Decided by z3 per exit path: without fraction and exponent the result is Literal::Integer(positional value) when it fits an i64 and
    otherwise Literal::Float of exactly the digit string; with a fraction or an exponent it is Literal::Float of exactly
    integer + fraction + exponent without underscores (`str::parse::<f64>` is a model that keeps the text it was given - float rounding
    itself is core's and is not decided). Models are replayed through the real lexer."""
    import core
    import kernels
    import litfmt
    from kchecks import _account
    t0 = time.time()
    try:
        register_enum("Literal", enum_from_source(__import__("os").path.join(core.REPO, "prqlc/prqlc-parser/src/lexer/lr.rs"), "Literal"))
        funcs = kernels.load_parser(r"^number(::\{closure#\d+\})+($|::promoted)")
        # the closure that receives ((int, frac), exp): the one returning Literal
        cands = [n for n, f in funcs.items() if re.fullmatch(r"number::\{closure#\d+\}", n) and f.ret.strip().endswith("Literal")]
        if len(cands) != 1:
            raise Inconclusive(f"conversion closure of number() not identified: {cands}")
        conv = cands[0]

        def m_filter(I, st, a):
            return SAgg("filter", "", {0: models.deref(I, st, a[0]), 1: a[1]})

        def m_collect(I, st, a):
            flt = a[0]
            if not (isinstance(flt, SAgg) and flt.kind == "filter"):
                raise Inconclusive(f"K-numdec: collect of {flt}")
            cur, clo = flt.f[0], flt.f[1]
            s = cur.f[0]
            body = I.closure_body(clo.name)
            if body is None:
                raise Inconclusive(f"K-numdec: filter closure body {clo.name}")
            out = []
            for c in s.ch[cur.f["pos"]:]:
                def build(st2, c=c):
                    st2.heap.append(clo)
                    st2.heap.append(SInt(c, 32, False))
                    return [SRef(-1, ("cell", 0)), SRef(-1, ("cell", 1))]
                keep, _ = eval_pred(I.funcs, I.stub_patterns, body, build)
                if not I.feasible(st.pc, z3.Not(keep)):
                    out.append(c)
                elif I.feasible(st.pc, keep):
                    raise Inconclusive("K-numdec: the filter's verdict on a character is undecided on this path")
            return litfmt.LStr(out)

        def parse_int(I, st, a, bits=64):
            s = litfmt.lstr(I, st, a[0])
            if not s.ch:
                return SEnum("Result", 1, {1: {0: SOpaque("ParseIntError", False)}})
            val, okd, dv = z3.BitVecVal(0, 64), [], []
            for c in s.ch:
                isd, v = digit_value(c, z3.BitVecVal(10, 32))
                okd.append(isd)
                dv.append(v)
                val = val * 10 + z3.ZeroExt(32, v)          # wraps; only used when the value fits
            if len(s.ch) > 22:
                raise Inconclusive("K-numdec: more than 22 digits")
            ok = z3.And(le_decimal(dv, (1 << 63) - 1), *okd)
            return [(ok, SEnum("Result", 0, {0: {0: SInt(val, 64, True)}})),
                    (z3.Not(ok), SEnum("Result", 1, {1: {0: SOpaque("ParseIntError", False)}}))]

        def parse_float(I, st, a):
            s = litfmt.lstr(I, st, a[0])
            return SEnum("Result", 0, {0: {0: SAgg("f64of", "", {0: s})}})

        def m_parse(I, st, a):
            # the target type is in the turbofish of the call
            m = re.search(r"::parse::<([a-z0-9]+)>$", I.current_callee)
            if m and m.group(1) == "f64":
                return parse_float(I, st, a)
            if m and m.group(1) == "i64":
                return parse_int(I, st, a)
            raise Inconclusive(f"K-numdec: {I.current_callee}")

        pats = [(re.compile(p), f) for p, f in [
            (r"^<(std::str::|core::str::)?Chars<'_> as Iterator>::filter$", m_filter),
            (r"^<(std|core)::iter::Filter<.*> as Iterator>::collect$", m_collect),
            (r"^core::str::<impl str>::parse$", m_parse),
        ] + stubs() + litfmt.stubs()]
    except Inconclusive as e:
        R.engine_error(f"K-numdec: {e}")
        return

    D = "d"
    shapes = [(D * n, "", "") for n in range(1, 21)]
    shapes += [("d_d", "", ""), ("dd_ddd", "", ""), ("d__d", "", ""), ("d_ddd_ddd_ddd_ddd_ddd_ddd", "", "")]
    for ip in ("d", "dd", "d_d", "0"):
        for fp in ("", ".d", ".dd", ".d_d"):
            for ep in ("", "ed", "Ed", "e+d", "e-d", "edd", "e-dd"):
                if fp or ep:
                    shapes.append((ip, fp, ep))
    nq = nviol = npaths = 0
    lastI = None
    try:
        for k, (ip, fp, ep) in enumerate(shapes):
            pre, parts, digits_all = [], [], []
            for pi, p in enumerate((ip, fp, ep)):
                chs = []
                for i, x in enumerate(p):
                    if x == "d":
                        c = z3.BitVec(f"nd{k}_{pi}_{i}", 32)
                        lo = 49 if (pi == 0 and i == 0 and len(ip.replace("_", "")) > 1) else 48
                        pre.append(z3.And(z3.UGE(c, lo), z3.ULE(c, 57)))
                        chs.append(c)
                    elif x == "0":
                        chs.append(z3.BitVecVal(48, 32))
                    else:
                        chs.append(z3.BitVecVal(ord(x), 32))
                parts.append(chs)
            expect = [c for p in parts for c in p if not (z3.is_bv_value(c) and c.as_long() == 95)]
            I = Interp(funcs, unwind=64, timeout_s=60)
            I.stub_patterns = pats
            I.lazy = False
            st = State()
            st.pc = list(pre)
            st.heap.append(SAgg("closure", "", {}))
            arg = SAgg("tuple", "", {0: SAgg("tuple", "", {0: litfmt.LStr(parts[0]), 1: litfmt.LStr(parts[1])}), 1: litfmt.LStr(parts[2])})
            st.frames.append(I.new_frame(conv, [SRef(-1, ("cell", 0)), arg]))
            I.deadline = time.time() + 60
            I.exits = []
            I.explore(st)
            lastI = I
            iI, iF = VARIANTS["Literal"].index("Integer"), VARIANTS["Literal"].index("Float")
            plain = not fp and not ep
            val = z3.BitVecVal(0, 64)
            for c in expect:
                if plain:
                    val = val * 10 + z3.ZeroExt(32, c - 48)
            fits = le_decimal([c - 48 for c in expect], (1 << 63) - 1) if plain else z3.BoolVal(False)
            good = 0
            for e in I.exits:
                npaths += 1
                v_ = e.value
                if e.kind == "return" and isinstance(v_, SEnum) and v_.ty == "Literal" and v_.disc == iI and isinstance(v_.pay[iI][0], SInt):
                    goal = z3.Not(z3.And(fits, v_.pay[iI][0].t == val))
                elif e.kind == "return" and isinstance(v_, SEnum) and v_.ty == "Literal" and v_.disc == iF and isinstance(v_.pay[iF][0], SAgg) and v_.pay[iF][0].kind == "f64of":
                    got = v_.pay[iF][0].f[0].ch
                    same = z3.And(*[a_ == b_ for a_, b_ in zip(got, expect)]) if len(got) == len(expect) else z3.BoolVal(False)
                    goal = z3.Not(z3.And(z3.Not(fits), same))
                else:
                    goal = z3.BoolVal(True)
                v, model, dt = kernels.check(e.pc, goal, timeout_ms=30000)
                nq += 1
                R.q(v, dt)
                if v == "unknown":
                    R.engine_error("K-numdec: unknown")
                if v == "unsat":
                    good += 1
                if v != "sat":
                    continue
                src = "".join(chr(model.eval(c, model_completion=True).as_long()) for p in parts for c in p)
                clean = src.replace("_", "")
                if plain and int(clean) <= (1 << 63) - 1:
                    want = {"Integer": int(clean)}
                else:
                    want = {"Float": float(clean)}
                r = drv.req(op="lex", prql=src)
                toks = r.get("tokens") or []
                lit = toks[1]["kind"].get("Literal") if r.get("ok") and len(toks) == 2 and isinstance(toks[1].get("kind"), dict) else None
                if lit == want:
                    R.engine_error(f"ENCODER-MISMATCH K-numdec: the model literal {src} lexes as expected in the real lexer")
                    continue
                nviol += 1
                R.violation({"engine": "mirsym", "kernel": "K-numdec", "kind": "number_value", "plain": plain},
                            f"K-numdec: the literal {src} denotes {list(want.values())[0]!r}; the lexer gives {str(lit if lit is not None else r.get('errors') or toks)[:120]}",
                            {"prql": src, "text": str(list(want.values())[0]), "lexed": str(lit), "expect_token": {"Literal": want}})
            if good == 0 and nviol == 0:
                R.engine_error(f"K-numdec: shape {ip!r} {fp!r} {ep!r} has no accepting path (vacuous)")
    except Inconclusive as e:
        R.engine_error(f"K-numdec: {e}")
        return
    if lastI is not None:
        _account(R, lastI, "K-numdec")
    R.cov["states"] = R.cov.get("states", 0) + npaths
    R.sample({"kernel": "K-numdec", "shapes": len(shapes), "paths": npaths, "queries": nq, "property": "plain digit strings of 1..20 digits (all digits symbolic) are Integer(value) up to "
              "i64::MAX and Float(of exactly those digits) above; spellings with fraction / exponent / underscores are Float of integer+fraction+exponent without underscores", "wall_s": round(time.time() - t0, 2)})
    R.cov.setdefault("bounds", {})["K-numdec"] = f"{len(shapes)} shapes of (integer part, fraction, exponent); f64 parsing itself is a model that keeps its argument text"
    core.log(f"[K-numdec] {len(shapes)} shapes, {npaths} paths, {nq} queries, {nviol} violations in {time.time()-t0:.1f}s")
