"""Symbolic interpreter for rustc MIR text over z3 bit-vectors (explicit frame stack, path enumeration).

Machine integers are bit-vectors of their width (wrap-around + exact overflow flags), bools are z3 Bools,
enums carry a (possibly symbolic) discriminant plus per-variant payloads, aggregates are immutable
records, references are (frame depth, place) pairs, Vec is a concrete-length sequence.
Unknown callees yield tainted opaque values; taint reaching a branch or an asserted property makes the
run inconclusive - it can never turn into a pass.
"""
import copy
import re
import time
from functools import lru_cache

import z3

import mir

INT_TYPES = {"i8": (8, True), "i16": (16, True), "i32": (32, True), "i64": (64, True), "i128": (128, True), "isize": (64, True),
             "u8": (8, False), "u16": (16, False), "u32": (32, False), "u64": (64, False), "u128": (128, False), "usize": (64, False),
             "char": (32, False)}

VARIANTS = {  # enum name (last path segment) -> ordered variant names
    "Option": ["None", "Some"], "Result": ["Ok", "Err"], "ControlFlow": ["Continue", "Break"], "Ordering": ["Less", "Equal", "Greater"],
}


class Inconclusive(Exception):
    pass


class UnwindHit(Exception):
    """a loop wants more iterations than the unwinding bound (only raised when the harness asked for such paths as exits)"""


# ---------------------------------------------------------------- values
class SInt:
    __slots__ = ("t", "bits", "signed")

    def __init__(self, t, bits, signed):
        self.t, self.bits, self.signed = t, bits, signed

    def __repr__(self):
        return f"SInt({z3.simplify(self.t)},{'i' if self.signed else 'u'}{self.bits})"


class SBool:
    __slots__ = ("t",)

    def __init__(self, t):
        self.t = t

    def __repr__(self):
        return f"SBool({z3.simplify(self.t)})"


class SUnit:
    def __repr__(self):
        return "()"


class SFloat:
    """f64 at bit level: `bits` is a 64-bit vector (IEEE 754 binary64), comparisons go through z3's floating-point view of it"""
    __slots__ = ("bits",)

    def __init__(self, bits):
        self.bits = bits

    def fp(self):
        return z3.fpBVToFP(self.bits, z3.Float64())

    def __repr__(self):
        return f"SFloat({z3.simplify(self.bits)})"


class SAgg:
    """tuple / struct / closure / array: fields by index (int) or name (str)"""
    __slots__ = ("kind", "name", "f")

    def __init__(self, kind, name, f):
        self.kind, self.name, self.f = kind, name, f

    def __repr__(self):
        return f"{self.kind}:{self.name}{self.f}"


class SEnum:
    __slots__ = ("ty", "disc", "pay")

    def __init__(self, ty, disc, pay):
        self.ty, self.disc, self.pay = ty, disc, pay     # disc: int or z3 BitVec(64); pay: {variant_idx: {field: value}}

    def __repr__(self):
        return f"{self.ty}#{self.disc if isinstance(self.disc, int) else z3.simplify(self.disc)}{self.pay}"


class SRef:
    __slots__ = ("depth", "place")

    def __init__(self, depth, place):
        self.depth, self.place = depth, place

    def __repr__(self):
        return f"&[{self.depth}]{self.place}"


class SOpaque:
    __slots__ = ("label", "taint")

    def __init__(self, label, taint=True):
        self.label, self.taint = label, taint

    def __repr__(self):
        return f"opaque<{self.label}>"


class SStr:
    """string atom: python str constant, or a symbolic atom id (int term) with equality only"""
    __slots__ = ("v",)

    def __init__(self, v):
        self.v = v

    def __repr__(self):
        return f"str({self.v!r})"


class SFn:
    __slots__ = ("name",)

    def __init__(self, name):
        self.name = name

    def __repr__(self):
        return f"fn<{self.name}>"


class SVec:
    __slots__ = ("items",)

    def __init__(self, items):
        self.items = list(items)

    def __repr__(self):
        return f"vec{self.items}"


class SIter:
    __slots__ = ("items", "pos")

    def __init__(self, items, pos=0):
        self.items, self.pos = list(items), pos

    def __repr__(self):
        return f"iter@{self.pos}{self.items}"


def bare_variant(name):
    """enum owning a variant name that MIR prints without its path (imported variants); None if not unique"""
    owners = [ty for ty, vs in VARIANTS.items() if name in vs]
    return owners[0] if len(owners) == 1 else None


def register_enum(name, variants):
    VARIANTS[name] = list(variants)


def enum_from_source(path, name):
    """variant names of `enum name { ... }` in declaration order, read from the source file"""
    src = open(path).read()
    m = re.search(r"\benum\s+" + re.escape(name) + r"\b[^{]*\{", src)
    if not m:
        raise Inconclusive(f"enum {name} not found in {path}")
    i, depth, start = m.end(), 1, m.end()
    while depth and i < len(src):
        depth += {"{": 1, "}": -1}.get(src[i], 0)
        i += 1
    body = src[start:i - 1]
    body = re.sub(r'"(?:[^"\\]|\\.)*"', '""', body)
    body = re.sub(r"//[^\n]*", "", body)
    body = re.sub(r"#\[(?:[^\[\]]|\[[^\]]*\])*\]", "", body)
    out, depth, cur = [], 0, ""
    for ch in body:
        if ch in "({[<":
            depth += 1
        elif ch in ")}]>":
            depth -= 1
        if ch == "," and depth == 0:
            out.append(cur)
            cur = ""
        else:
            cur += ch
    out.append(cur)
    names = []
    for item in out:
        mm = re.match(r"\s*([A-Za-z_]\w*)", item)
        if mm:
            names.append(mm.group(1))
    return names


def enum_name(ty):
    """last path segment of a type/constructor path without generics"""
    ty = re.sub(r"<.*", "", ty.strip())
    return ty.split("::")[-1]


def mk_enum(ty, variant, fields=None):
    vs = VARIANTS[ty]
    idx = vs.index(variant)
    return SEnum(ty, idx, {idx: dict(fields or {})})


def some(v):
    return mk_enum("Option", "Some", {0: v})


def none():
    return mk_enum("Option", "None")


def sym_option(name, inner):
    d = z3.BitVec(name + "_d", 64)
    return SEnum("Option", d, {1: {0: inner}}), z3.Or(d == 0, d == 1)


def const_int(n, bits=64, signed=True):
    return SInt(z3.BitVecVal(n, bits), bits, signed)


# ---------------------------------------------------------------- places
@lru_cache(maxsize=None)
def parse_place(s):
    s = s.strip()
    m = re.fullmatch(r"_(\d+)", s)
    if m:
        return ("local", int(m.group(1)))
    if s.endswith("]"):
        i = s.rindex("[")
        inner = s[i + 1:-1]
        base = parse_place(s[:i])
        m2 = re.fullmatch(r"(\d+) of \d+", inner)
        if m2:
            return ("cindex", base, int(m2.group(1)))
        return ("index", base, parse_place(inner))
    if s.startswith("(") and s.endswith(")"):
        inner = s[1:-1].strip()
        if inner.startswith("*"):
            return ("deref", parse_place(inner[1:]))
        k = mir.find_top(inner, " as ")
        c = mir.find_top(inner, ": ")
        if k >= 0 and (c < 0 or k < c):
            return ("downcast", parse_place(inner[:k]), inner[k + 4:].strip())
        if c >= 0:
            left = inner[:c]
            dot = left.rindex(".")
            fld = left[dot + 1:]
            return ("field", parse_place(left[:dot]), int(fld) if fld.isdigit() else fld)
        return parse_place(inner)
    raise Inconclusive(f"place syntax: {s}")


# ---------------------------------------------------------------- state
class Frame:
    __slots__ = ("fn", "locals", "bb", "idx", "dest", "ret_bb", "visits")

    def __init__(self, fn):
        self.fn, self.locals, self.bb, self.idx = fn, {}, 0, 0
        self.dest, self.ret_bb = None, None
        self.visits = {}

    def clone(self):
        f = Frame(self.fn)
        f.locals, f.bb, f.idx, f.dest, f.ret_bb = dict(self.locals), self.bb, self.idx, self.dest, self.ret_bb
        f.visits = dict(self.visits)
        return f


class State:
    def __init__(self):
        self.frames = []
        self.pc = []          # z3 Bools
        self.heap = []        # cells addressed by SRef(depth=-1, ('cell', i))
        self.trace = []

    def clone(self):
        s = State()
        s.frames = [f.clone() for f in self.frames]
        s.pc = list(self.pc)
        s.heap = list(self.heap)
        s.trace = list(self.trace)
        return s


class Exit:
    def __init__(self, kind, state, value=None, msg=None, where=None):
        self.kind, self.pc, self.value, self.msg, self.where = kind, list(state.pc), value, msg, where
        self.trace = list(state.trace)


class Interp:
    def __init__(self, funcs, stubs=None, hints=None, unwind=8, max_paths=4000, timeout_s=600):
        self.funcs = funcs
        self.stubs = stubs or {}
        self.hints = hints or {}
        self.unwind = unwind
        self.max_paths = max_paths
        self.deadline = None
        self.timeout_s = timeout_s
        self.solver = z3.Solver()
        self.solver.set("timeout", 20000)
        self.exits = []
        self.stats = {"paths": 0, "branches": 0, "solver_calls": 0, "solver_s": 0.0, "unmodelled": set(), "models_used": set(), "bodies": set()}

    # -- solver
    def feasible(self, pc, extra=None):
        cs = list(pc) + ([extra] if extra is not None else [])
        cs = [c for c in cs if not z3.is_true(c)]
        if any(z3.is_false(c) for c in cs):
            return False
        if not cs:
            return True
        t = time.time()
        self.stats["solver_calls"] += 1
        r = self.solver.check(*cs)
        self.stats["solver_s"] += time.time() - t
        if r == z3.unknown:
            raise Inconclusive("solver unknown in feasibility check")
        return r == z3.sat

    # -- entry
    def run(self, fname, args, pre=()):
        self.deadline = time.time() + self.timeout_s
        st = State()
        st.pc = list(pre)
        fr = self.new_frame(fname, args)
        st.frames.append(fr)
        self.exits = []
        self.explore(st)
        return self.exits

    def new_frame(self, fname, args):
        fn = self.funcs[fname]
        self.stats["bodies"].add(fname)
        fr = Frame(fn)
        if len(args) != len(fn.args):
            raise Inconclusive(f"arity mismatch calling {fname}: {len(args)} vs {len(fn.args)}")
        for (n, _), v in zip(fn.args, args):
            fr.locals[n] = v
        return fr

    # -- exploration: iterative DFS over a work list of states
    def explore(self, st0):
        work = [st0]
        while work:
            if time.time() > self.deadline:
                raise Inconclusive("kernel time budget exceeded")
            st = work.pop()
            try:
                res = self.step_until_fork(st)
            except UnwindHit as u:
                self.finish_path("unwind", st, None, str(u), self.where(st))
                continue
            if res is None:
                continue
            work.extend(res)

    def finish_path(self, kind, st, value=None, msg=None, where=None):
        self.stats["paths"] += 1
        if self.stats["paths"] > self.max_paths:
            raise Inconclusive("path budget exceeded")
        self.exits.append(Exit(kind, st, value, msg, where))

    def step_until_fork(self, st):
        """run one state until it ends or forks; returns list of successor states (or None)"""
        while True:
            fr = st.frames[-1]
            blk = fr.fn.blocks[fr.bb]
            if fr.idx < len(blk.stmts):
                lhs, rhs = blk.stmts[fr.idx]
                fr.idx += 1
                v = self.rvalue(st, rhs)
                self.write(st, len(st.frames) - 1, parse_place(lhs), v)
                continue
            t = blk.term
            k = t[0]
            if k == "goto":
                self.jump(st, fr, t[1])
                continue
            if k == "return":
                val = fr.locals.get(0, SUnit())
                st.frames.pop()
                if not st.frames and getattr(self, "keep_last_frame", False):
                    self.last_frame = fr
                if not st.frames:
                    self.finish_path("return", st, val)
                    return None
                caller = st.frames[-1]
                if fr.dest is not None:
                    self.write(st, len(st.frames) - 1, parse_place(fr.dest), val)
                if fr.ret_bb is None:
                    self.finish_path("diverge", st, None, "callee returned but call site has no return edge")
                    return None
                self.jump(st, caller, fr.ret_bb)
                continue
            if k == "unreachable":
                self.finish_path("panic", st, None, "reached `unreachable`", self.where(st))
                return None
            if k == "resume":
                self.finish_path("panic", st, None, "unwinding", self.where(st))
                return None
            if k == "assert":
                _, cond, expect, msg, succ = t
                c = self.operand(st, cond)
                if not isinstance(c, SBool):
                    raise Inconclusive(f"assert on non-bool {c}")
                ok = c.t if expect else z3.Not(c.t)
                ok = z3.simplify(ok)
                outs = []
                if self.feasible(st.pc, z3.Not(ok)):
                    bad = st.clone()
                    bad.pc.append(z3.Not(ok))
                    self.finish_path("panic", bad, None, msg.strip('"'), self.where(st))
                if self.feasible(st.pc, ok):
                    if not z3.is_true(ok):
                        st.pc.append(ok)
                    self.jump(st, fr, succ)
                    continue
                return None
            if k == "switch":
                _, op, targets = t
                v = self.operand(st, op)
                if isinstance(v, SBool):
                    term = z3.If(v.t, z3.BitVecVal(1, 8), z3.BitVecVal(0, 8))
                    bits = 8
                elif isinstance(v, SInt):
                    term, bits = v.t, v.bits
                else:
                    raise Inconclusive(f"switchInt on {v} in {fr.fn.name} bb{fr.bb}")
                term = z3.simplify(term)
                if z3.is_bv_value(term):
                    n = term.as_long()
                    # discriminants are isize: compare modulo width
                    tgt = None
                    for kk, bbt in targets.items():
                        if kk is not None and (kk % (1 << bits)) == n:
                            tgt = bbt
                    if tgt is None:
                        tgt = targets.get(None)
                    if tgt is None:
                        self.finish_path("panic", st, None, "switchInt without matching arm", self.where(st))
                        return None
                    self.jump(st, fr, tgt)
                    continue
                self.stats["branches"] += 1
                succs = []
                conds = []
                for kk, bbt in targets.items():
                    if kk is None:
                        continue
                    c = term == z3.BitVecVal(kk, bits)
                    conds.append(c)
                    if self.feasible(st.pc, c):
                        s2 = st.clone()
                        s2.pc.append(c)
                        self.jump(s2, s2.frames[-1], bbt)
                        succs.append(s2)
                if None in targets:
                    c = z3.And(*[z3.Not(x) for x in conds]) if conds else z3.BoolVal(True)
                    if self.feasible(st.pc, c):
                        s2 = st.clone()
                        s2.pc.append(c)
                        self.jump(s2, s2.frames[-1], targets[None])
                        succs.append(s2)
                return succs
            if k == "call":
                _, dest, call, ret = t
                r = self.call(st, dest, call, ret)
                if r == "continue":
                    continue
                return r
            raise Inconclusive(f"terminator {t}")

    def where(self, st):
        return " < ".join(f"{f.fn.name}:bb{f.bb}" for f in reversed(st.frames))

    def jump(self, st, fr, bb):
        fr.visits[bb] = fr.visits.get(bb, 0) + 1
        if fr.visits[bb] > self.unwind:
            if getattr(self, "unwind_exits", False):
                raise UnwindHit(f"more than {self.unwind} visits of {fr.fn.name} bb{bb}")
            raise Inconclusive(f"unwinding bound {self.unwind} exceeded at {fr.fn.name} bb{bb} (bound too small)")
        fr.bb, fr.idx = bb, 0

    # -- memory
    def read(self, st, depth, place):
        k = place[0]
        if k == "local":
            fr = st.frames[depth]
            if place[1] not in fr.locals:
                raise Inconclusive(f"read of uninitialised _{place[1]} in {fr.fn.name}")
            return fr.locals[place[1]]
        if k == "cell":
            return st.heap[place[1]]
        if k == "deref":
            r = self.read(st, depth, place[1])
            if isinstance(r, SRef):
                return self.read(st, r.depth, r.place)
            if isinstance(r, SOpaque):
                return SOpaque(f"*{r.label}")
            return r        # Box<T> and friends are transparent
        if k == "field":
            b = self.read(st, depth, place[1])
            if isinstance(b, dict):
                if place[2] not in b:
                    raise Inconclusive(f"no field {place[2]} in variant payload {b}")
                return b[place[2]]
            if isinstance(b, SAgg):
                if place[2] not in b.f:
                    raise Inconclusive(f"no field {place[2]} in {b}")
                return b.f[place[2]]
            if isinstance(b, SOpaque):
                return SOpaque(f"{b.label}.{place[2]}")
            if isinstance(b, SRef):  # auto-deref never happens in MIR
                raise Inconclusive("field of reference")
            raise Inconclusive(f"field {place[2]} of {b}")
        if k == "downcast":
            b = self.read(st, depth, place[1])
            if isinstance(b, SOpaque):
                return SOpaque(f"{b.label} as {place[2]}")
            if not isinstance(b, SEnum):
                raise Inconclusive(f"downcast of {b}")
            idx = self.variant_index(b.ty, place[2])
            if idx not in b.pay:
                raise Inconclusive(f"variant {place[2]} has no payload in {b}")
            return b.pay[idx]
        if k in ("index", "cindex"):
            b = self.read(st, depth, place[1])
            if k == "cindex":
                i = place[2]
            else:
                iv = self.read(st, depth, place[2])
                t = z3.simplify(iv.t)
                if not z3.is_bv_value(t):
                    raise Inconclusive("symbolic index")
                i = t.as_long()
            items = b.items if isinstance(b, SVec) else b.f
            return items[i]
        raise Inconclusive(f"read {place}")

    def write(self, st, depth, place, v):
        k = place[0]
        if k == "local":
            st.frames[depth].locals[place[1]] = v
            return
        if k == "cell":
            st.heap[place[1]] = v
            return
        if k == "deref":
            r = self.read(st, depth, place[1])
            if isinstance(r, SRef):
                self.write(st, r.depth, r.place, v)
                return
            self.write(st, depth, place[1], v)
            return
        if k == "field":
            b = self.read(st, depth, place[1]) if self.has(st, depth, place[1]) else None
            if isinstance(b, dict):
                nb = dict(b)
                nb[place[2]] = v
            elif isinstance(b, SAgg):
                nf = dict(b.f)
                nf[place[2]] = v
                nb = SAgg(b.kind, b.name, nf)
            elif b is None:
                nb = SAgg("struct", "?", {place[2]: v})
            elif isinstance(b, SOpaque) and getattr(self, "opaque_sinks", False):
                return          # kernel option: writes into memory obtained from an unmodelled callee are dropped (the value stays opaque)
            else:
                raise Inconclusive(f"field write into {b}")
            self.write(st, depth, place[1], nb)
            return
        if k == "downcast":
            b = self.read(st, depth, place[1])
            idx = self.variant_index(b.ty, place[2])
            np = dict(b.pay)
            np[idx] = v
            self.write(st, depth, place[1], SEnum(b.ty, b.disc, np))
            return
        raise Inconclusive(f"write {place}")

    def has(self, st, depth, place):
        try:
            self.read(st, depth, place)
            return True
        except Inconclusive:
            return False

    def variant_index(self, ty, name):
        vs = VARIANTS.get(ty)
        if vs is None or name not in vs:
            raise Inconclusive(f"unknown variant {ty}::{name} (add the enum to VARIANTS)")
        return vs.index(name)

    # -- operands / rvalues
    def operand(self, st, s):
        s = s.strip()
        if s.startswith("no_retag "):
            s = s[9:]
        if s.startswith("copy ") or s.startswith("move "):
            return self.read(st, len(st.frames) - 1, parse_place(s[5:]))
        if s.startswith("const "):
            return self.const(s[6:].strip(), st)
        if re.fullmatch(r"_\d+", s) or s.startswith("("):
            return self.read(st, len(st.frames) - 1, parse_place(s))
        return SFn(s)

    def const(self, c, st=None):
        if c == "()":
            return SUnit()
        if c in ("true", "false"):
            return SBool(z3.BoolVal(c == "true"))
        m = re.fullmatch(r"(-?[\d_]+?)_?(i8|i16|i32|i64|i128|isize|u8|u16|u32|u64|u128|usize)", c)
        if m:
            bits, signed = INT_TYPES[m.group(2)]
            return SInt(z3.BitVecVal(int(m.group(1).replace("_", "")), bits), bits, signed)
        m = re.fullmatch(r"(?:core::num::<impl )?(i8|i16|i32|i64|i128|isize|u8|u16|u32|u64|u128|usize)>?::(MIN|MAX)", c)
        if m:
            bits, signed = INT_TYPES[m.group(1)]
            if m.group(2) == "MAX":
                n = (1 << (bits - 1)) - 1 if signed else (1 << bits) - 1
            else:
                n = -(1 << (bits - 1)) if signed else 0
            return SInt(z3.BitVecVal(n, bits), bits, signed)
        mf = re.fullmatch(r"(-?(?:\d[\d_]*)(?:\.\d+)?(?:[eE][+-]?\d+)?)_?f64", c)
        if mf:
            import struct
            return SFloat(z3.BitVecVal(struct.unpack("<Q", struct.pack("<d", float(mf.group(1).replace("_", ""))))[0], 64))
        if c.startswith('b"'):
            return SAgg("bytes", "", {0: eval(c)})       # byte-string constant (fmt templates)
        if c.startswith('"'):
            return SStr(eval(c) if "\\u{" not in c else c)
        mp = re.search(r"::promoted\[(\d+)\]$", c)
        if mp and st is not None:
            cname = "const " + st.frames[-1].fn.name + f"::promoted[{mp.group(1)}]"
            if cname in self.funcs:
                v = self.eval_pure(cname, [])
                # promoted values live for 'static: keep them in a heap cell so references stay valid
                return self.relocate(st, v, cname)
            raise Inconclusive(f"promoted constant {cname} not loaded")
        if c.startswith("'"):
            mu = re.fullmatch(r"'\\u\{([0-9a-fA-F]+)\}'", c)      # Rust spelling of a code point
            ch = chr(int(mu.group(1), 16)) if mu else eval(c)
            return SInt(z3.BitVecVal(ord(ch), 32), 32, False)
        # unit-like enum variant constant
        clean = re.sub(r"<[^<>]*>", "", self.strip_all_generics(c))
        segs = [x for x in clean.split("::") if x]
        if len(segs) > 1 and segs[-2] in VARIANTS and segs[-1] in VARIANTS[segs[-2]]:
            return SEnum(segs[-2], VARIANTS[segs[-2]].index(segs[-1]), {})
        if re.match(r"^[\w:<> ,&']+$", c) or "{closure@" in c or c.startswith("<"):
            return SFn(c)
        return SOpaque(f"const {c}", taint=True)

    BIN = {"Add", "Sub", "Mul", "Div", "Rem", "BitAnd", "BitOr", "BitXor", "Shl", "Shr", "Eq", "Ne", "Lt", "Le", "Gt", "Ge",
           "AddWithOverflow", "SubWithOverflow", "MulWithOverflow", "AddUnchecked", "SubUnchecked", "MulUnchecked", "Cmp", "Offset",
           "ShlUnchecked", "ShrUnchecked"}

    def rvalue(self, st, r):
        r = r.strip()
        depth = len(st.frames) - 1
        if r.startswith("&"):
            body = r[1:]
            for pre in ("raw const ", "raw mut ", "mut ", "fake shallow ", "fake "):
                if body.startswith(pre):
                    body = body[len(pre):]
                    break
            pl = parse_place(body)
            # reborrow of a deref: point to the same target
            if pl[0] == "deref":
                inner = self.read(st, depth, pl[1])
                if isinstance(inner, SRef):
                    return inner
            return SRef(depth, pl)
        m = re.match(r"^(\w+)\((.*)\)$", r)
        if m and m.group(1) in self.BIN:
            a, b = [self.operand(st, x) for x in mir.split_top(m.group(2))]
            return self.binop(m.group(1), a, b)
        if m and m.group(1) in ("Neg", "Not"):
            a = self.operand(st, m.group(2))
            if isinstance(a, SBool):
                return SBool(z3.Not(a.t))
            if isinstance(a, SInt):
                return SInt(-a.t if m.group(1) == "Neg" else ~a.t, a.bits, a.signed)
            if isinstance(a, SFloat) and m.group(1) == "Neg":
                return SFloat(a.bits ^ z3.BitVecVal(1 << 63, 64))
            raise Inconclusive(f"{m.group(1)} of {a}")
        if r.startswith("discriminant("):
            v = self.read(st, depth, parse_place(r[len("discriminant("):-1]))
            if isinstance(v, SEnum):
                d = v.disc
                return SInt(z3.BitVecVal(d, 64) if isinstance(d, int) else d, 64, True)
            raise Inconclusive(f"discriminant of {v} in {st.frames[-1].fn.name}")
        if r.startswith("CopyForDeref("):
            return self.read(st, depth, parse_place(r[len("CopyForDeref("):-1]))
        if r.startswith("Len(") or r.startswith("PtrMetadata("):
            v = self.operand(st, r[r.index("(") + 1:-1]) if r.startswith("PtrMetadata(") else self.read(st, depth, parse_place(r[4:-1]))
            if isinstance(v, SRef):
                v = self.read(st, v.depth, v.place)
            if isinstance(v, SVec):
                return const_int(len(v.items), 64, False)
            raise Inconclusive(f"Len of {v}")
        # cast
        k = mir.find_top(r, " as ")
        if k >= 0 and r.endswith(")") and not r.startswith("("):
            op = self.operand(st, r[:k])
            rest = r[k + 4:]
            ty = rest[:rest.rindex("(")].strip()
            kind = rest[rest.rindex("(") + 1:-1]
            return self.cast(op, ty, kind)
        # closure aggregate
        if r.startswith("{closure@"):
            end = r.index("}") + 1
            name = r[:end]
            rest = r[end:].strip()
            f = {}
            if rest.startswith("{"):
                for i, part in enumerate(mir.split_top(rest[1:-1].strip())):
                    if part:
                        nm, val = part.split(":", 1)
                        f[i] = self.operand(st, val)
            return SAgg("closure", name, f)
        # tuple / array
        if r.startswith("(") and mir.last_balanced_paren(r)[0] == 0 and not r.startswith("(*") and (mir.find_top(r[1:-1], ": ") < 0 or "," in r):
            parts = [p for p in mir.split_top(r[1:-1]) if p != ""]
            try:
                return SAgg("tuple", "", {i: self.operand(st, p) for i, p in enumerate(parts)})
            except Inconclusive:
                pass
        if r.startswith("["):
            parts = [p for p in mir.split_top(r[1:-1]) if p != ""]
            return SAgg("array", "", {i: self.operand(st, p) for i, p in enumerate(parts)})
        if r.startswith(("copy ", "move ", "const ", "no_retag ")):
            return self.operand(st, r)
        # struct literal  Path { f: v, .. }   /   enum variant  Path::Variant(v, ..)  /  unit variant
        b = mir.find_top(r, " { ")
        if b >= 0 and r.endswith("}"):
            path = r[:b]
            fields = {}
            body = r[b + 3:-1].strip()
            for part in mir.split_top(body):
                if not part:
                    continue
                nm, val = part.split(":", 1)
                nm = nm.strip()
                fields[int(nm) if nm.isdigit() else nm] = self.operand(st, val)
            return self.construct(path, fields, named=True)
        if r.endswith(")") and "::" in r:
            s0, e0 = mir.last_balanced_paren(r)
            path = r[:s0]
            parts = [p for p in mir.split_top(r[s0 + 1:e0]) if p != ""]
            return self.construct(path, {i: self.operand(st, p) for i, p in enumerate(parts)}, named=False)
        if "::" in r:
            return self.construct(r, {}, named=False)
        m = re.match(r"^(\w+)(?:\((.*)\))?$", r)
        if m and bare_variant(m.group(1)) is not None:
            ty = bare_variant(m.group(1))
            idx = VARIANTS[ty].index(m.group(1))
            parts = [p for p in mir.split_top(m.group(2))] if m.group(2) else []
            return SEnum(ty, idx, {idx: {i: self.operand(st, p) for i, p in enumerate(parts) if p != ""}})
        return self.operand(st, r)

    def construct(self, path, fields, named):
        clean = re.sub(r"<[^<>]*>", "", self.strip_all_generics(path))
        while "<" in clean and re.search(r"<[^<>]*>", clean):
            clean = re.sub(r"<[^<>]*>", "", clean)
        segs = [x for x in clean.split("::") if x]
        last = segs[-1]
        prev = segs[-2] if len(segs) > 1 else None
        if prev is None and named and bare_variant(last) is not None:
            prev = bare_variant(last)       # a struct-like variant printed without its enum path (imported variant)
        if prev in VARIANTS and last in VARIANTS[prev]:
            idx = VARIANTS[prev].index(last)
            f = dict(fields)
            if named:      # struct-like variant: fields are also addressed positionally in declaration order
                for i, (fname, v) in enumerate(fields.items()):
                    f.setdefault(i, v)
            return SEnum(prev, idx, {idx: f})
        nm = last
        # struct: named fields are positional in place projections (.0, .1 by declaration order) - keep both keys
        f = dict(fields)
        order = STRUCT_FIELDS.get(nm)
        if named and order:
            for i, fname in enumerate(order):
                if fname in fields:
                    f[i] = fields[fname]
        elif named:
            for i, (fname, v) in enumerate(fields.items()):
                f[i] = v
        return SAgg("struct", nm, f)

    def cast(self, v, ty, kind):
        if isinstance(v, SInt) and ty in INT_TYPES:
            bits, signed = INT_TYPES[ty]
            if bits == v.bits:
                t = v.t
            elif bits < v.bits:
                t = z3.Extract(bits - 1, 0, v.t)
            else:
                t = z3.SignExt(bits - v.bits, v.t) if v.signed else z3.ZeroExt(bits - v.bits, v.t)
            return SInt(t, bits, signed)
        if isinstance(v, SBool) and ty in INT_TYPES:
            bits, signed = INT_TYPES[ty]
            return SInt(z3.If(v.t, z3.BitVecVal(1, bits), z3.BitVecVal(0, bits)), bits, signed)
        if kind.startswith("PointerCoercion") or kind in ("Transmute", "PtrToPtr"):
            return v
        if isinstance(v, SEnum) and ty in INT_TYPES:
            bits, signed = INT_TYPES[ty]
            d = z3.BitVecVal(v.disc, 64) if isinstance(v.disc, int) else v.disc
            return self.cast(SInt(d, 64, True), ty, kind)
        raise Inconclusive(f"cast {v} as {ty} ({kind})")

    def binop(self, op, a, b):
        if isinstance(a, SBool) and isinstance(b, SBool):
            t = {"Eq": a.t == b.t, "Ne": a.t != b.t, "BitAnd": z3.And(a.t, b.t), "BitOr": z3.Or(a.t, b.t), "BitXor": z3.Xor(a.t, b.t)}.get(op)
            if t is None:
                raise Inconclusive(f"bool {op}")
            return SBool(t)
        if isinstance(a, SFloat) and isinstance(b, SFloat):
            x, y = a.fp(), b.fp()
            t = {"Lt": z3.fpLT(x, y), "Le": z3.fpLEQ(x, y), "Gt": z3.fpGT(x, y), "Ge": z3.fpGEQ(x, y), "Eq": z3.fpEQ(x, y), "Ne": z3.Not(z3.fpEQ(x, y))}.get(op)
            if t is None:
                raise Inconclusive(f"float {op}")
            return SBool(t)
        if not (isinstance(a, SInt) and isinstance(b, SInt)):
            raise Inconclusive(f"{op} on {a}, {b}")
        x, y, sg, bits = a.t, b.t, a.signed, a.bits
        if b.bits != bits:
            if op in ("Shl", "Shr", "ShlUnchecked", "ShrUnchecked"):
                y = z3.ZeroExt(bits - b.bits, y) if b.bits < bits else z3.Extract(bits - 1, 0, y)
            else:
                raise Inconclusive(f"width mismatch in {op}")
        if op in ("Add", "AddUnchecked"):
            return SInt(x + y, bits, sg)
        if op in ("Sub", "SubUnchecked"):
            return SInt(x - y, bits, sg)
        if op in ("Mul", "MulUnchecked"):
            return SInt(x * y, bits, sg)
        if op == "Div":
            return SInt(x / y if sg else z3.UDiv(x, y), bits, sg)
        if op == "Rem":
            return SInt(z3.SRem(x, y) if sg else z3.URem(x, y), bits, sg)
        if op in ("BitAnd", "BitOr", "BitXor"):
            return SInt({"BitAnd": x & y, "BitOr": x | y, "BitXor": x ^ y}[op], bits, sg)
        if op in ("Shl", "ShlUnchecked"):
            return SInt(x << y, bits, sg)
        if op in ("Shr", "ShrUnchecked"):
            return SInt(x >> y if sg else z3.LShR(x, y), bits, sg)
        if op in ("Eq", "Ne"):
            return SBool(x == y if op == "Eq" else x != y)
        if op in ("Lt", "Le", "Gt", "Ge"):
            if sg:
                t = {"Lt": x < y, "Le": x <= y, "Gt": x > y, "Ge": x >= y}[op]
            else:
                t = {"Lt": z3.ULT(x, y), "Le": z3.ULE(x, y), "Gt": z3.UGT(x, y), "Ge": z3.UGE(x, y)}[op]
            return SBool(t)
        if op == "AddWithOverflow":
            ok = z3.And(z3.BVAddNoOverflow(x, y, sg), z3.BVAddNoUnderflow(x, y)) if sg else z3.BVAddNoOverflow(x, y, False)
            return SAgg("tuple", "", {0: SInt(x + y, bits, sg), 1: SBool(z3.Not(ok))})
        if op == "SubWithOverflow":
            ok = z3.And(z3.BVSubNoOverflow(x, y), z3.BVSubNoUnderflow(x, y, sg)) if sg else z3.BVSubNoUnderflow(x, y, False)
            return SAgg("tuple", "", {0: SInt(x - y, bits, sg), 1: SBool(z3.Not(ok))})
        if op == "MulWithOverflow":
            ok = z3.And(z3.BVMulNoOverflow(x, y, sg), z3.BVMulNoUnderflow(x, y)) if sg else z3.BVMulNoOverflow(x, y, False)
            return SAgg("tuple", "", {0: SInt(x * y, bits, sg), 1: SBool(z3.Not(ok))})
        if op == "Cmp":
            lt = (x < y) if sg else z3.ULT(x, y)
            d = z3.If(lt, z3.BitVecVal(-1, 64), z3.If(x == y, z3.BitVecVal(0, 64), z3.BitVecVal(1, 64)))
            return SEnum("Ordering", d + 1, {})   # stored as index 0,1,2 ; discriminant() callers rarely see this
        raise Inconclusive(f"binop {op}")

    # -- calls
    def split_call(self, call):
        s0, e0 = mir.last_balanced_paren(call)
        callee = call[:s0].strip()
        args = [a for a in mir.split_top(call[s0 + 1:e0]) if a != ""]
        return callee, args

    def resolve(self, callee):
        if callee in self.funcs:
            return callee
        base = re.sub(r"::<[^()]*>$", "", callee) if callee.endswith(">") else callee
        # strip trailing turbofish (may contain closures with parens)
        tf = self.strip_turbofish(callee)
        norm = self.strip_all_generics(tf).replace("core::", "std::")
        for cand in (base, tf, norm):
            if cand in self.funcs:
                return cand
        m = re.match(r"^<(.+) as (.+?)>::(\w+)$", tf)
        if m:
            meth = m.group(3)
            hint = self.hints.get(tf) or self.hints.get(m.group(2).split("<")[0] + "::" + meth)
            if hint and hint in self.funcs:
                return hint
            cands = [f for f in self.funcs if f.endswith("::" + meth) and "<impl at" in f]
            tr = m.group(2).split("<")[0].split("::")[-1]
            if len(cands) == 1 and tr in IN_CRATE_TRAITS:
                return cands[0]
        # inherent method on an in-crate type printed with a path prefix
        cands = [f for f in self.funcs if f == tf.split("::", 1)[-1]]
        if len(cands) == 1:
            return cands[0]
        return None

    @staticmethod
    def strip_all_generics(s):
        """drop every `::<...>` group (balanced)"""
        out, i, n = [], 0, len(s)
        while i < n:
            if s.startswith("::<", i):
                depth, j = 0, i + 2
                while j < n:
                    if s[j] == "<":
                        depth += 1
                    elif s[j] == ">" and s[j - 1] != "-":
                        depth -= 1
                        if depth == 0:
                            break
                    j += 1
                i = j + 1
                continue
            out.append(s[i])
            i += 1
        return "".join(out)

    @staticmethod
    def strip_turbofish(callee):
        # remove a trailing ::<...> group (balanced)
        if not callee.endswith(">"):
            return callee
        depth = 0
        i = len(callee) - 1
        while i >= 0:
            ch = callee[i]
            if ch == ">" and not (i > 0 and callee[i - 1] == "-"):
                depth += 1
            elif ch == "<":
                depth -= 1
                if depth == 0:
                    break
            i -= 1
        if i >= 2 and callee[i - 2:i] == "::":
            return callee[:i - 2]
        return callee

    def call(self, st, dest, call, ret):
        callee, arg_txt = self.split_call(call)
        args = [self.operand(st, a) for a in arg_txt]
        tf = self.strip_turbofish(callee)
        fr = st.frames[-1]
        # 1. harness stubs
        for key in (callee, tf):
            if key in self.stubs:
                self.stats["models_used"].add("stub:" + key)
                return self.apply_model(st, self.stubs[key], args, dest, ret, callee)
        # 2. closures / fn items through FnOnce/FnMut/Fn
        m = re.match(r"^<(.+) as (?:std::ops::|core::ops::)?(?:function::)?Fn(?:Once|Mut)?<.*>>::call(?:_once|_mut)?$", tf)
        if m:
            f, tup = args
            if isinstance(f, SRef):
                f = self.read(st, f.depth, f.place)
            targs = [tup.f[i] for i in sorted(tup.f)] if isinstance(tup, SAgg) else []
            if isinstance(f, SAgg) and f.kind == "closure":
                body = self.closure_body(f.name)
                if body is None:
                    raise Inconclusive(f"closure body not found for {f.name}")
                return self.push(st, body, [f] + targs, dest, ret)
            if isinstance(f, SFn):
                return self.call_named(st, f.name, targs, dest, ret)
            raise Inconclusive(f"call through {f}")
        return self.call_named(st, callee, args, dest, ret)

    def eval_pure(self, fname, args):
        """run a straight-line in-crate function to its single return value (e.g. Default::default)"""
        sub = Interp(self.funcs, self.stubs, self.hints, self.unwind)
        sub.stub_patterns = getattr(self, "stub_patterns", ())
        sub.lazy = getattr(self, "lazy", True)
        sub.keep_last_frame = True
        exits = sub.run(fname, args)
        rets = [e for e in exits if e.kind == "return"]
        if len(exits) != 1 or len(rets) != 1 or any(not z3.is_true(c) for c in rets[0].pc):
            raise Inconclusive(f"{fname} is not a pure straight-line function")
        self.stats["bodies"] |= sub.stats["bodies"]
        self._scratch = sub.last_frame
        return rets[0].value

    def _scratch_read(self, ref):
        st = State()
        st.frames = [self._scratch]
        return self.read(st, 0, ref.place)

    def relocate(self, st, v, label):
        """value computed in a scratch frame whose references point into that frame: copy targets to the heap"""
        if isinstance(v, SRef):
            tgt = self._scratch_read(v)
            tgt = self.relocate(st, tgt, label)
            st.heap.append(tgt)
            return SRef(-1, ("cell", len(st.heap) - 1))
        return v

    def call_named(self, st, callee, args, dest, ret):
        self.current_callee = callee
        tf = self.strip_turbofish(callee)
        for key in (callee, tf):
            if key in self.stubs:
                self.stats["models_used"].add("stub:" + key)
                return self.apply_model(st, self.stubs[key], args, dest, ret, callee)
        for rx, fn in getattr(self, "stub_patterns", ()):
            if rx.search(tf):
                self.stats["models_used"].add("stub~" + rx.pattern)
                return self.apply_model(st, fn, args, dest, ret, callee)
        target = self.resolve(callee)
        if target is not None:
            return self.push(st, target, args, dest, ret)
        import models
        mdl = models.lookup(tf)
        if mdl is not None:
            self.stats["models_used"].add(mdl.__name__)
            return self.apply_model(st, mdl, args, dest, ret, callee)
        # an in-crate body that was not among the functions the kernel asked for: load it from the full MIR
        if getattr(self, "lazy", True) and not re.match(r"^(std|core|alloc)::|^<(std|core|alloc)::", tf):
            try:
                import kernels
                name = kernels.lazy_lookup(self.funcs, callee, self.strip_all_generics)
            except Exception:
                name = None
            if name is not None and len(self.funcs[name].args) == len(args):
                self.stats.setdefault("lazy_loaded", set()).add(name)
                return self.push(st, name, args, dest, ret)
        self.stats["unmodelled"].add(tf)
        return self.apply_model(st, lambda I, s, a: SOpaque(f"ret:{tf}", taint=True), args, dest, ret, callee)

    def push(self, st, target, args, dest, ret):
        if len(st.frames) > 40:
            raise Inconclusive("call depth")
        fr = self.new_frame(target, args)
        fr.dest, fr.ret_bb = dest, ret
        st.frames.append(fr)
        return "continue"

    def apply_model(self, st, mdl, args, dest, ret, callee):
        """model returns a value, or a list of (cond, value) alternatives, or ('panic', msg) / ('call', target, args)"""
        res = mdl(self, st, args)
        if isinstance(res, tuple) and res and res[0] == "panic":
            self.finish_path("panic", st, None, res[1], self.where(st))
            return None
        if isinstance(res, tuple) and res and res[0] == "call":
            return self.push(st, res[1], res[2], dest, ret)
        alts = res if isinstance(res, list) else [(z3.BoolVal(True), res)]
        succs = []
        for cond, val in alts:
            if isinstance(val, tuple) and val and val[0] == "panic":
                if self.feasible(st.pc, cond):
                    s2 = st.clone()
                    s2.pc.append(cond)
                    self.finish_path("panic", s2, None, val[1], self.where(st))
                continue
            if not self.feasible(st.pc, cond):
                continue
            s2 = st.clone() if len(alts) > 1 else st
            if not z3.is_true(cond):
                s2.pc.append(cond)
            if dest is not None:
                self.write(s2, len(s2.frames) - 1, parse_place(dest), val)
            if ret is None:
                self.finish_path("diverge", s2, None, f"no return edge after {callee}")
                continue
            self.jump(s2, s2.frames[-1], ret)
            succs.append(s2)
        if len(alts) == 1 and succs and succs[0] is st:
            return "continue"
        return succs

    def closure_body(self, cname, _retry=True):
        """{closure@file:l:c: l:c}  ->  function whose first argument has that closure type"""
        loc = cname
        for name, fn in self.funcs.items():
            if "{closure#" in name and fn.args and fn.args[0][1].replace("&", "").replace("mut ", "").strip() == loc:
                return name
        if _retry and getattr(self, "lazy", True):
            # closures of the loaded bodies that the kernel's own selection did not include (e.g. newly written ones)
            try:
                import kernels
                import mir as _mir
                parents = {n for n in self.funcs if not n.startswith("const ")}
                want = {n for n, _ in kernels.full_index() if "::{closure#" in n and n.split("::{closure#")[0] in parents and n not in self.funcs}
                if want:
                    self.funcs.update(_mir.parse_file(kernels.emit_mir(), want=lambda n: n in want))
                    return self.closure_body(cname, _retry=False)
            except Exception:
                pass
        return None


STRUCT_FIELDS = {"Range": ["start", "end"]}
IN_CRATE_TRAITS = {"OrMap", "SQLExpression"}
