"""K-sqlstr: how a string value held by the compiler is written into the SQL text (C08, emission side).

Executed from MIR, for a symbolic text of at most L characters (every code point, symbolic length):
  prqlc  `sql::gen_expr::translate_literal`  (arms Literal::String / Literal::RawString)            -> sqlparser `Value`
  sqlparser `<Value as Display>::fmt`  (arm of the variant translate_literal built)                   -> `'{}'` template
  sqlparser `escape_single_quote_string` / `escape_quoted_string` / `<EscapeQuotedString as Display>::fmt`  -> write_str calls
The sqlparser bodies come from the MIR of the dependency exactly as the workspace's Cargo.lock resolves it.

Property (decided per exit path by z3): the characters written, read by a lexer whose only escape inside '...' is the doubled
quote (SQLite, ANSI SQL, PostgreSQL with standard_conforming_strings, DuckDB, MS SQL), are ONE string literal token that spans
the whole output and denotes exactly the text. A model is replayed through prqlc::compile + SQLite.

Models local to this kernel:
  <char as Default>::default; str::char_indices / Iterator::peekable / Peekable::peek / Peekable::next as a cursor over the
  character array (byte offsets = sums of UTF-8 widths); RangeInclusive::new; <str as Index<RangeInclusive|RangeFrom|Range|RangeTo>>
  (panic off a character boundary, as in core::str); Formatter::write_str (recorded, returns Ok: writing into a String cannot fail);
  fmt::rt::Argument::new_display / Arguments::new / Formatter::write_fmt (compact template decoded; a Display argument is executed
  from its MIR body); <String as Deref>::deref, String::as_str, Into::into for Value -> ValueWithSpan;
  str::replace::<char> with a constant replacement (forks on every character; needed once the compiler escapes before sqlparser does).
"""
import glob
import os
import re
import time

import z3

from sym import *  # noqa
import models
import quote as kq


class Txt:
    """a string whose characters are terms; n: z3 64-bit length (symbolic or constant); ch: list of 32-bit terms (capacity)"""
    __slots__ = ("ch", "n", "off", "tag")

    def __init__(self, ch, n, tag="t"):
        self.ch, self.n, self.tag = list(ch), n, tag
        self.off = [z3.BitVecVal(0, 64)]
        for c in self.ch:
            self.off.append(z3.simplify(self.off[-1] + width(c)))

    def __repr__(self):
        return f"txt[{len(self.ch)}]"


class Slice:
    """characters [i, j) of a Txt (python ints; j None = to the end)"""
    __slots__ = ("s", "i", "j")

    def __init__(self, s, i, j):
        self.s, self.i, self.j = s, i, j

    def __repr__(self):
        return f"{self.s}[{self.i}..{self.j}]"


def width(c):
    return z3.If(z3.ULT(c, 0x80), z3.BitVecVal(1, 64), z3.If(z3.ULT(c, 0x800), z3.BitVecVal(2, 64), z3.If(z3.ULT(c, 0x10000), z3.BitVecVal(3, 64), z3.BitVecVal(4, 64))))


def symbolic_text(L):
    a, dom = kq.symbolic_text(L)
    return Txt(a.ch, a.n, "text"), dom


def _txt(I, st, v):
    v = models.deref(I, st, v)
    if isinstance(v, Txt):
        return v
    if isinstance(v, SStr) and isinstance(v.v, str):
        return Txt([z3.BitVecVal(ord(c), 32) for c in v.v], z3.BitVecVal(len(v.v), 64), "const")
    raise Inconclusive(f"K-sqlstr: string operand {v}")


def _idx_of(s, t):
    """character index whose byte offset is the term t (offsets only ever come from char_indices or constants)"""
    t = z3.simplify(t)
    for i, o in enumerate(s.off):
        if z3.eq(z3.simplify(o), t):
            return i
    return None


def _inb(s, i):
    return z3.ULT(z3.BitVecVal(i, 64), s.n)


def stubs(display_fmt_of):
    """display_fmt_of(type_name) -> name of the loaded MIR body of <type as Display>::fmt"""

    def m_char_default(I, st, a):
        return SInt(z3.BitVecVal(0, 32), 32, False)

    def m_char_indices(I, st, a):
        return SAgg("cursor", "CharIndices", {0: _txt(I, st, a[0]), "pos": 0})

    def m_peekable(I, st, a):
        c = models.deref(I, st, a[0])
        return SAgg("cursor", "Peekable", dict(c.f))

    def _cursor(I, st, r):
        c = models.deref(I, st, r)
        if not (isinstance(c, SAgg) and c.kind == "cursor"):
            raise Inconclusive(f"K-sqlstr: cursor operand {c}")
        return c

    def _item(s, i):
        return SAgg("tuple", "", {0: SInt(s.off[i], 64, False), 1: SInt(s.ch[i], 32, False)})

    def m_peek(I, st, a):
        c = _cursor(I, st, a[0])
        s, i = c.f[0], c.f["pos"]
        if i >= len(s.ch):
            return none()
        st.heap.append(_item(s, i))
        ref = SRef(-1, ("cell", len(st.heap) - 1))
        return [(_inb(s, i), some(ref)), (z3.Not(_inb(s, i)), none())]

    def m_next(I, st, a):
        c = _cursor(I, st, a[0])
        s, i = c.f[0], c.f["pos"]
        if i >= len(s.ch) or not I.feasible(st.pc, _inb(s, i)):
            return none()
        if I.feasible(st.pc, z3.Not(_inb(s, i))):
            raise Inconclusive("K-sqlstr: Iterator::next on a cursor whose end is undecided on this path")
        nf = dict(c.f)
        nf["pos"] = i + 1
        r = a[0]
        I.write(st, r.depth, r.place, SAgg("cursor", c.name, nf))
        return some(_item(s, i))

    def m_rangeincl_new(I, st, a):
        return SAgg("struct", "RangeInclusive", {0: a[0], 1: a[1], "start": a[0], "end": a[1]})

    def _bound(s, v, what):
        i = _idx_of(s, v.t)
        if i is None:
            raise Inconclusive(f"K-sqlstr: {what} {z3.simplify(v.t)} is not a byte offset produced by char_indices")
        return i

    def m_index_incl(I, st, a):
        s, r = _txt(I, st, a[0]), models.deref(I, st, a[1])
        i, j = _bound(s, r.f[0], "range start"), _bound(s, r.f[1], "inclusive range end")
        if j >= len(s.ch):
            return [(z3.BoolVal(True), ("panic", "byte index out of range of the string"))]
        ok = z3.And(_inb(s, j), width(s.ch[j]) == 1, z3.BoolVal(i <= j + 1))
        return [(ok, Slice(s, i, j + 1)), (z3.Not(ok), ("panic", "byte index is not a char boundary / out of range"))]

    def m_index_from(I, st, a):
        s, r = _txt(I, st, a[0]), models.deref(I, st, a[1])
        i = _bound(s, r.f["start"] if "start" in r.f else r.f[0], "range start")
        ok = z3.ULE(z3.BitVecVal(i, 64), s.n)
        return [(ok, Slice(s, i, None)), (z3.Not(ok), ("panic", "range start is past the end of the string"))]

    def m_index_range(I, st, a):
        s, r = _txt(I, st, a[0]), models.deref(I, st, a[1])
        i, j = _bound(s, r.f["start"] if "start" in r.f else r.f[0], "range start"), _bound(s, r.f["end"] if "end" in r.f else r.f[1], "range end")
        ok = z3.And(z3.ULE(z3.BitVecVal(j, 64), s.n), z3.BoolVal(i <= j))
        return [(ok, Slice(s, i, j)), (z3.Not(ok), ("panic", "range out of bounds of the string"))]

    def m_index_to(I, st, a):
        s, r = _txt(I, st, a[0]), models.deref(I, st, a[1])
        j = _bound(s, r.f["end"] if "end" in r.f else r.f[0], "range end")
        ok = z3.ULE(z3.BitVecVal(j, 64), s.n)
        return [(ok, Slice(s, 0, j)), (z3.Not(ok), ("panic", "range end is past the end of the string"))]

    def _ok_unit():
        return SEnum("Result", 0, {0: {0: SUnit()}})

    def m_write_str(I, st, a):
        v = models.deref(I, st, a[1])
        if isinstance(v, (Txt, Slice)):
            st.trace.append(("write", v))
        elif isinstance(v, SStr) and isinstance(v.v, str):
            st.trace.append(("lit", v.v))
        else:
            raise Inconclusive(f"K-sqlstr: write_str of {v}")
        return _ok_unit()

    def m_write_char(I, st, a):
        v = models.deref(I, st, a[1])
        if not isinstance(v, SInt):
            raise Inconclusive(f"K-sqlstr: write_char of {v}")
        st.trace.append(("char", v.t))
        return _ok_unit()

    def m_new_display(I, st, a):
        ty = re.search(r"new_display::<(.*)>$", I.current_callee)
        return SAgg("fmtarg", ty.group(1) if ty else "?", {0: a[0]})

    def m_args_new(I, st, a):
        return SAgg("fmtargs", "", {0: models.deref(I, st, a[0]), 1: models.deref(I, st, a[1])})

    def m_write_fmt(I, st, a):
        fa = a[1]
        if not (isinstance(fa, SAgg) and fa.kind == "fmtargs"):
            raise Inconclusive(f"K-sqlstr: write_fmt of {fa}")
        tpl, args = fa.f[0], fa.f[1]
        if not (isinstance(tpl, SAgg) and tpl.kind == "bytes") or not isinstance(args, SAgg):
            raise Inconclusive(f"K-sqlstr: template {tpl} args {args}")
        parts = decode_template(tpl.f[0])
        argv = [args.f[k] for k in sorted(k for k in args.f if isinstance(k, int))]
        events, call = [], None
        for kind, v in parts:
            if kind == "lit":
                events.append(("lit", v))
                continue
            arg = argv[v]
            if not (isinstance(arg, SAgg) and arg.kind == "fmtarg"):
                raise Inconclusive(f"K-sqlstr: fmt argument {arg}")
            inner = models.deref(I, st, arg.f[0])
            if isinstance(inner, (Txt, Slice)):        # `{v}` of a String / &str: written verbatim
                events.append(("write", inner))
            elif isinstance(inner, SInt) and inner.bits == 32:      # `{c}` of a char
                events.append(("char", inner.t))
            elif isinstance(inner, SStr) and isinstance(inner.v, str):
                events.append(("lit", inner.v))
            else:
                if call is not None:
                    raise Inconclusive(f"K-sqlstr: template with two arguments that need a Display body: {parts}")
                body = display_fmt_of(arg.name)
                if body is None:
                    raise Inconclusive(f"K-sqlstr: no Display body for {arg.name}")
                call = (len(events), body, arg.f[0])
        if call is None:
            st.trace += events
            return _ok_unit()
        k, body, ref = call
        st.trace += events[:k]
        # what the template writes after the argument is written when the argument's fmt has returned: recorded as deferred
        st.trace.append(("deferred", events[k:]))
        return ("call", body, [ref, a[0]])

    def m_into(I, st, a):
        return SAgg("struct", "ValueWithSpan", {"value": a[0], 0: a[0]})

    def m_replace_char(I, st, a):
        s = _txt(I, st, a[0])
        pat = models.deref(I, st, a[1])
        rep = _txt(I, st, a[2])
        if not isinstance(pat, SInt) or not z3.is_bv_value(z3.simplify(rep.n)):
            raise Inconclusive(f"K-sqlstr: replace({pat}, {rep})")
        repc = rep.ch[:z3.simplify(rep.n).as_long()]
        alts = []

        def rec(i, acc, conds):
            # the length is decided first, then every character in range
            alts.append((z3.And(s.n == i, *conds), Txt(acc, z3.BitVecVal(len(acc), 64), "replaced")))
            if i < len(s.ch):
                rec(i + 1, acc + repc, conds + [s.ch[i] == pat.t])
                rec(i + 1, acc + [s.ch[i]], conds + [s.ch[i] != pat.t])
        rec(0, [], [])
        return alts

    def _chars_of(I, st, v):
        """characters of a Txt / Slice / constant whose length is concrete on this path (None otherwise)"""
        v = models.deref(I, st, v)
        if isinstance(v, Slice):
            n = z3.simplify(v.s.n)
            j = v.j if v.j is not None else (n.as_long() if z3.is_bv_value(n) else None)
            return None if j is None else v.s.ch[v.i:j]
        t = _txt(I, st, v)
        n = z3.simplify(t.n)
        return t.ch[:n.as_long()] if z3.is_bv_value(n) else None

    def _fix_length(I, st, v, then):
        """a model that needs a concrete length: fork on the symbolic length first"""
        t = _txt(I, st, v)
        if z3.is_bv_value(z3.simplify(t.n)):
            return then(Txt(t.ch[:z3.simplify(t.n).as_long()], z3.simplify(t.n), t.tag))
        return [(t.n == k, then(Txt(t.ch[:k], z3.BitVecVal(k, 64), t.tag))) for k in range(len(t.ch) + 1)]

    def m_split_str(I, st, a):
        pat = _chars_of(I, st, a[1])
        if pat is None or not pat:
            raise Inconclusive("K-sqlstr: split with a pattern of unknown length")
        return _fix_length(I, st, a[0], lambda t: SAgg("splitstr", "", {0: t, 1: pat}))

    def _pred_on(I, st, clo, arg):
        """closure(arg) -> z3 Bool (the closure may branch)"""
        import numlex
        clo = models.deref(I, st, clo)
        body = I.closure_body(clo.name)
        if body is None:
            raise Inconclusive(f"K-sqlstr: closure body of {clo.name}")

        def build(st2):
            st2.heap.append(clo)
            first = I.funcs[body].args[0][1]
            return [SRef(-1, ("cell", 0)) if first.startswith("&") else clo, arg]
        t, _ = numlex.eval_pred(I.funcs, I.stub_patterns, body, build)
        return t

    def m_split_all_any(which):
        def f(I, st, a):
            sp = models.deref(I, st, a[0])
            if not (isinstance(sp, SAgg) and sp.kind == "splitstr"):
                raise Inconclusive(f"K-sqlstr: {which} over {sp}")
            t, pat = sp.f[0], sp.f[1]
            n, m = len(t.ch), len(pat)
            alts = []

            def rec(i, start, pieces, conds):
                # scanning left to right; a match of the pattern ends the current piece
                if i + m > n:
                    ps = pieces + [(start, n)]
                    preds = [_pred_on(I, st, a[1], Slice(t, x, y)) for x, y in ps]
                    val = z3.And(*preds) if which == "all" else z3.Or(*preds)
                    alts.append((z3.And(*conds) if conds else z3.BoolVal(True), SBool(val)))
                    return
                hit = z3.And(*[t.ch[i + k] == pat[k] for k in range(m)])
                rec(i + m, i + m, pieces + [(start, i)], conds + [hit])
                rec(i + 1, start, pieces, conds + [z3.Not(hit)])
            rec(0, 0, [], [])
            return alts
        return f

    def m_contains_char(I, st, a):
        chs = _chars_of(I, st, a[0])
        pat = models.deref(I, st, a[1])
        if chs is None:
            t = _txt(I, st, a[0])
            return SBool(z3.Or(*[z3.And(_inb(t, i), t.ch[i] == pat.t) for i in range(len(t.ch))]) if t.ch else z3.BoolVal(False))
        return SBool(z3.Or(*[c == pat.t for c in chs]) if chs else z3.BoolVal(False))

    def m_is_empty(I, st, a):
        chs = _chars_of(I, st, a[0])
        if chs is None:
            return SBool(_txt(I, st, a[0]).n == 0)
        return SBool(z3.BoolVal(len(chs) == 0))

    def m_char_to_string(I, st, a):
        c = models.deref(I, st, a[0])
        return Txt([c.t], z3.BitVecVal(1, 64), "char")

    def m_repeat(I, st, a):
        s, k = _txt(I, st, a[0]), z3.simplify(a[1].t)
        if not (z3.is_bv_value(k) and z3.is_bv_value(z3.simplify(s.n))):
            raise Inconclusive("K-sqlstr: repeat with a symbolic count or length")
        n = z3.simplify(s.n).as_long()
        return Txt(s.ch[:n] * k.as_long(), z3.BitVecVal(n * k.as_long(), 64), "repeated")

    return {
        "<char as ToString>::to_string": m_char_to_string, "std::str::<impl str>::repeat": m_repeat, "alloc::str::<impl str>::repeat": m_repeat,
        "<char as core::default::Default>::default": m_char_default, "<char as Default>::default": m_char_default,
        "<char as std::default::Default>::default": m_char_default,
        "core::str::<impl str>::char_indices": m_char_indices,
        "<String as Deref>::deref": lambda I, st, a: a[0], "<alloc::string::String as Deref>::deref": lambda I, st, a: a[0],
        "<std::string::String as Deref>::deref": lambda I, st, a: a[0],
        "std::string::String::as_str": lambda I, st, a: a[0], "alloc::string::String::as_str": lambda I, st, a: a[0],
        "__peekable__": m_peekable, "__peek__": m_peek, "__next__": m_next, "__rangeincl_new__": m_rangeincl_new,
        "__index_incl__": m_index_incl, "__index_from__": m_index_from, "__index_range__": m_index_range, "__index_to__": m_index_to,
        "__write_str__": m_write_str, "__write_char__": m_write_char, "__new_display__": m_new_display, "__args_new__": m_args_new,
        "__write_fmt__": m_write_fmt, "__into__": m_into, "__replace_char__": m_replace_char,
        "__split_str__": m_split_str, "__split_all__": m_split_all_any("all"), "__split_any__": m_split_all_any("any"),
        "__contains_char__": m_contains_char, "__is_empty__": m_is_empty,
    }


PATTERNS = [
    (r"^<(core::str::)?CharIndices<'_> as Iterator>::peekable$", "__peekable__"),
    (r"^(core::iter::|std::iter::)?Peekable::<(core::str::)?CharIndices<'_>>::peek$", "__peek__"),
    (r"^<(core::iter::|std::iter::)?Peekable<(core::str::)?CharIndices<'_>> as Iterator>::next$", "__next__"),
    (r"^(core|std)::ops::RangeInclusive::<usize>::new$", "__rangeincl_new__"),
    (r"^<str as (core::ops::|std::ops::)?Index<(core|std)::ops::RangeInclusive<usize>>>::index$", "__index_incl__"),
    (r"^<str as (core::ops::|std::ops::)?Index<(core|std)::ops::RangeFrom<usize>>>::index$", "__index_from__"),
    (r"^<str as (core::ops::|std::ops::)?Index<(core|std)::ops::Range<usize>>>::index$", "__index_range__"),
    (r"^<str as (core::ops::|std::ops::)?Index<(core|std)::ops::RangeTo<usize>>>::index$", "__index_to__"),
    (r"^(core::fmt::|std::fmt::)?Formatter::<'_>::write_str$", "__write_str__"),
    (r"^<(core::fmt::|std::fmt::)?Formatter<'_> as (core::fmt::|std::fmt::)?Write>::write_str$", "__write_str__"),
    (r"^<(core::fmt::|std::fmt::)?Formatter<'_> as (core::fmt::|std::fmt::)?Write>::write_char$", "__write_char__"),
    (r"^(core::fmt::|std::fmt::)?Formatter::<'_>::write_fmt$", "__write_fmt__"),
    (r"^core::fmt::rt::Argument::<'_>::new_display$", "__new_display__"),
    (r"^(core::fmt::|std::fmt::)?Arguments::<'_>::new$", "__args_new__"),
    (r"^<(sqlparser::ast::)?(ast::value::)?Value as (std::convert::|core::convert::)?Into<(sqlparser::ast::)?(ast::value::)?ValueWithSpan>>::into$", "__into__"),
    (r"^(core|std|alloc)::str::<impl str>::replace$", "__replace_char__"),
    (r"^core::str::<impl str>::split$", "__split_str__"),
    (r"^<(std|core)::str::Split<'_, &str> as Iterator>::all$", "__split_all__"),
    (r"^<(std|core)::str::Split<'_, &str> as Iterator>::any$", "__split_any__"),
    (r"^core::str::<impl str>::contains$", "__contains_char__"),
    (r"^(core::str::<impl str>|(std::string::|alloc::string::)?String)::is_empty$", "__is_empty__"),
]


def decode_template(b):
    """compact fmt::Arguments template (rustc >= 1.92 nightly): literal pieces and positional arguments only"""
    parts, i, nxt = [], 0, 0
    while i < len(b):
        x = b[i]
        if x == 0:
            break
        if x < 0x80:
            parts.append(("lit", b[i + 1:i + 1 + x].decode("utf-8")))
            i += 1 + x
        elif x == 0xC0:
            parts.append(("arg", nxt))
            nxt += 1
            i += 1
        elif x == 0xC8:
            parts.append(("arg", b[i + 1] | (b[i + 2] << 8)))
            i += 3
        else:
            raise Inconclusive(f"K-sqlstr: fmt template byte {x:#x} in {b!r}")
    return parts


def output_chars(trace, n_of):
    """the characters written on one exit path, as a list of 32-bit terms. n_of(txt) -> python int length on this path"""
    out, deferred = [], []
    for ev in trace:
        if not isinstance(ev, tuple) or not ev:
            continue
        if ev[0] == "lit":
            out += [z3.BitVecVal(ord(c), 32) for c in ev[1]]
        elif ev[0] == "char":
            out.append(ev[1])
        elif ev[0] == "deferred":
            deferred.append(ev[1])
        elif ev[0] == "write":
            v = ev[1]
            if isinstance(v, Txt):
                out += v.ch[:n_of(v)]
            else:
                j = v.j if v.j is not None else n_of(v.s)
                out += v.s.ch[v.i:j]
    for d in reversed(deferred):
        out += output_chars(d, n_of)
    return out


def reads_back(out, text_chars, Q=None):
    """z3 formula: `out` is exactly one '...' literal (or Q...Q quoted identifier) of a doubled-quote-only lexer and denotes text_chars"""
    Q = z3.BitVecVal(39, 32) if Q is None else Q
    m, n = len(out), len(text_chars)
    if m < 2:
        return z3.BoolVal(False)
    inner = out[1:m - 1]
    k = len(inner)
    memo = {}

    def match(i, j):
        if (i, j) in memo:
            return memo[(i, j)]
        if i == k:
            r = z3.BoolVal(j == n)
        else:
            alts = []
            if j < n:
                alts.append(z3.And(inner[i] != Q, inner[i] == text_chars[j], match(i + 1, j + 1)))
                if i + 1 < k:
                    alts.append(z3.And(inner[i] == Q, inner[i + 1] == Q, text_chars[j] == Q, match(i + 2, j + 1)))
            r = z3.Or(*alts) if alts else z3.BoolVal(False)
        memo[(i, j)] = r
        return r
    return z3.And(out[0] == Q, out[m - 1] == Q, match(0, 0))


def py_reads_back(sql_literal):
    """concrete twin of reads_back (used by the self-test): value of a '...' literal or None"""
    if len(sql_literal) < 2 or sql_literal[0] != "'" or sql_literal[-1] != "'":
        return None
    inner, out, i = sql_literal[1:-1], [], 0
    while i < len(inner):
        if inner[i] == "'":
            if i + 1 < len(inner) and inner[i + 1] == "'":
                out.append("'")
                i += 2
                continue
            return None
        out.append(inner[i])
        i += 1
    return "".join(out)


def prql_literal(text):
    """a PRQL double-quoted literal denoting `text` (escapes of the language reference)"""
    out = []
    for c in text:
        o = ord(c)
        if c == '"':
            out.append('\\"')
        elif c == "\\":
            out.append("\\\\")
        elif o < 0x20 or o == 0x7F or o > 0x7E:
            out.append("\\u{%x}" % o)
        else:
            out.append(c)
    return '"' + "".join(out) + '"'


def _display_lines(src_file):
    """type name -> line of `impl ... Display for <type>` in the dependency's source"""
    out = {}
    for ln, line in enumerate(open(src_file), 1):
        m = re.match(r"\s*impl(?:<[^>]*>)?\s+(?:(?:core|std)::)?(?:fmt::)?Display\s+for\s+([A-Za-z_]\w*)", line)
        if m:
            out[m.group(1)] = ln
    return out


def check_sqlstr(R, drv, tier):
    import core
    import kernels
    import sqlite3
    from kchecks import _account
    t0 = time.time()
    L = 5 if tier == "quick" else 7
    try:
        src = kernels.sqlparser_src()
        vsrc = os.path.join(src, "src", "ast", "value.rs")
        register_enum("Literal", enum_from_source(os.path.join(core.REPO, "prqlc/prqlc-parser/src/lexer/lr.rs"), "Literal"))
        vs = enum_from_source(vsrc, "Value")       # `Number` is declared twice under complementary cfg attributes
        register_enum("Value", [v for i, v in enumerate(vs) if v not in vs[:i]])
        register_enum("Expr", enum_from_source(os.path.join(src, "src", "ast", "mod.rs"), "Expr"))
        lines = _display_lines(vsrc)
        funcs = dict(kernels.load(r"^gen_expr::translate_literal($|::promoted)"))
        funcs.update(kernels.load_sqlparser(r"^(escape_\w+$|ast::value::<impl at [^>]*value\.rs:(%s):)" % "|".join(str(v) for v in sorted(set(lines.values())))))

        def display_fmt_of(tyname):
            short = re.sub(r"<.*", "", tyname).split("::")[-1]
            ln = lines.get(short)
            cands = [n for n in funcs if ln is not None and re.search(r"value\.rs:%d:[^>]*>::fmt$" % ln, n)]
            return cands[0] if len(cands) == 1 else None
        text, dom = symbolic_text(L)
        sb = stubs(display_fmt_of)
        pats = [(re.compile(rx), sb[key]) for rx, key in PATTERNS]

        def interp():
            I = Interp(funcs, stubs=sb, unwind=2 * L + 4, timeout_s=300 if tier == "quick" else 1200, max_paths=20000)
            I.stub_patterns = pats
            I.lazy = False
            return I
        exits2 = []
        I1 = interp()
        I1.lazy = True          # helpers of the current tree that translate_literal calls are loaded from the prqlc MIR
        ex1 = []
        for variant in ("String", "RawString"):
            lit = mk_enum("Literal", variant, {0: text})
            ex1 += [(variant, e) for e in I1.run("gen_expr::translate_literal", [lit, SOpaque("ctx", False)], dom)]
        _account(R, I1, "K-sqlstr")
        value_fmt = display_fmt_of("Value")
        if value_fmt is None:
            raise Inconclusive("Display body of sqlparser Value not found")
        for variant, e in ex1:
            if e.kind != "return":
                exits2.append((variant, e, None))
                continue
            v = e.value
            ok = isinstance(v, SEnum) and v.ty == "Result" and v.disc == 0
            ex = v.pay[0][0] if ok else None
            if not (ok and isinstance(ex, SEnum) and ex.ty == "Expr" and ex.disc == VARIANTS["Expr"].index("Value")):
                R.engine_error(f"K-sqlstr: translate_literal({variant}) returned {str(v)[:200]}")
                continue
            vws = ex.pay[ex.disc][0]
            val = vws.f["value"]
            I2 = interp()
            st = State()
            st.pc = list(e.pc)
            st.heap.append(val)
            st.frames.append(I2.new_frame(value_fmt, [SRef(-1, ("cell", 0)), SOpaque("formatter", False)]))
            I2.deadline = time.time() + I2.timeout_s
            I2.exits = []
            I2.explore(st)
            _account(R, I2, "K-sqlstr")
            exits2 += [(variant, x, val) for x in I2.exits]
    except Inconclusive as e:
        R.engine_error(f"K-sqlstr: {e}")
        return
    rets = [x for _, x, _ in exits2 if x.kind == "return"]
    if len(rets) < L + 1:
        R.engine_error(f"K-sqlstr: vacuous - {len(rets)} return exits (expected at least one per text length)")
    nviol = nq = 0
    seen_models = set()
    for variant, e, val in exits2:
        if e.kind not in ("return", "panic"):
            R.engine_error(f"K-sqlstr: exit {e.kind} {e.msg}")
            continue
        for n in range(L + 1):
            pc = list(e.pc) + [text.n == n]
            if e.kind == "panic":
                goal = z3.BoolVal(True)
            else:
                try:
                    out = output_chars(e.trace, lambda t: n if t is text else z3.simplify(t.n).as_long())
                except Exception as ex:
                    R.engine_error(f"K-sqlstr: output of a return path not understood: {ex}")
                    break
                goal = z3.Not(reads_back(out, text.ch[:n]))
            v, model, dt = kernels.check(pc, goal, timeout_ms=60000)
            nq += 1
            R.q(v, dt)
            if v == "unknown":
                R.engine_error("K-sqlstr: unknown")
            if v != "sat":
                continue
            cps = [model.eval(text.ch[i], model_completion=True).as_long() for i in range(n)]
            exact = "".join(chr(c) for c in cps)
            # only quotes and backslashes steer the code; other characters are shown as letters first, the exact model is the fallback
            cands = [exact] if e.kind != "return" else ["".join(chr(c) if c in (39, 92) else "abcdefghij"[i] for i, c in enumerate(cps)), exact]
            reproduced = False
            for txt in cands:
                if (variant, txt) in seen_models:
                    reproduced = True
                    break
                lit = prql_literal(txt)
                prql = f"from t\nselect {{x = {lit}}}\n"
                r = drv.compile(prql, "sql.sqlite")
                if r.get("panic"):
                    nviol += 1
                    seen_models.add((variant, txt))
                    reproduced = True
                    R.violation({"engine": "mirsym", "kernel": "K-sqlstr", "kind": "panic"},
                                f"K-sqlstr: the string literal {txt!r} makes the compiler panic: {r['panic'][:120]}", {"prql": prql, "text": txt})
                    break
                if not r.get("ok") or not r.get("sql"):
                    continue
                sql = r["sql"]
                got, err = None, None
                try:
                    con = sqlite3.connect(":memory:")
                    con.execute("create table t(a)")
                    con.execute("insert into t values (1)")
                    got = con.execute(sql).fetchall()
                except Exception as ex:
                    err = str(ex)
                if err is not None or got != [(txt,)]:
                    nviol += 1
                    seen_models.add((variant, txt))
                    reproduced = True
                    R.violation({"engine": "mirsym", "kernel": "K-sqlstr", "kind": "string_value", "has_backslash": "\\" in txt,
                                 "adjacent_quotes": "''" in txt, "sqlite_error": err is not None},
                                f"K-sqlstr: the string literal {txt!r} is emitted as {sql.strip()[:80]!r}; SQLite " +
                                (f"rejects the statement ({err})" if err else f"returns {got!r}") + f", expected the value {txt!r}",
                                {"prql": prql, "sql": sql, "text": txt, "sqlite": err or repr(got)})
                    break
            if not reproduced:
                R.engine_error(f"ENCODER-MISMATCH K-sqlstr: the model text {exact!r} ({e.kind} path) does not reproduce through prqlc::compile + SQLite")
    # translator validation on concrete points: the real compiler + SQLite against the reference reader used in the queries
    Q1 = chr(39)
    probes = ["", "a", "it" + Q1 + "s", Q1 * 2, "a" + Q1 * 2 + "b", "\\", "\\" + Q1, "a\\" + Q1 + "b", Q1, Q1 * 4, "x" + Q1 + "y" + Q1 + "z", "\\\\", "-- c", "/* c */",
              "a\nb", "café", "世界", Q1 + ";--", "\\" + Q1 * 2, Q1 + "\\" + Q1]
    nval = 0
    for txt in probes:
        prog = "from t\nselect {x = " + prql_literal(txt) + "}\n"
        r = drv.compile(prog, "sql.sqlite")
        sql = (r.get("sql") or "").strip()
        m = re.match(r"^SELECT (.*) AS x FROM t$", sql, re.S)
        if not (r.get("ok") and m):
            R.engine_error(f"K-sqlstr self-test: probe {txt!r} does not compile to the expected shape: {str(r)[:160]}")
            continue
        try:
            con = sqlite3.connect(":memory:")
            con.execute("create table t(a)")
            con.execute("insert into t values (1)")
            got = con.execute(sql).fetchall()
        except Exception as ex:
            got = str(ex)
        ref = py_reads_back(m.group(1))
        if got == [(txt,)] and ref == txt:
            nval += 1
        elif (got == [(txt,)]) != (ref == txt):
            R.engine_error(f"ENCODER-MISMATCH K-sqlstr self-test: for {txt!r} the reference reader gives {ref!r} on {m.group(1)!r} but SQLite gives {got!r}")
        else:
            nviol += 1
            R.violation({"engine": "mirsym", "kernel": "K-sqlstr", "kind": "string_value", "probe": True},
                        f"K-sqlstr: the string literal {txt!r} is emitted as {sql[:80]!r}; SQLite gives {got!r}", {"prql": prog, "sql": sql, "text": txt})
    R.cov["concrete_probes_validated"] = R.cov.get("concrete_probes_validated", 0) + nval
    R.sample({"kernel": "K-sqlstr", "exits": len(exits2), "queries": nq, "property": f"for every string of <= {L} characters (every code point) the text written for a "
              "string literal is exactly one '...' token of a doubled-quote-only SQL lexer and denotes that string; no panic exit reachable", "wall_s": round(time.time() - t0, 2)})
    R.cov.setdefault("bounds", {})["K-sqlstr"] = (f"strings of at most {L} characters, every code point, symbolic length; translate_literal (String, RawString) from the prqlc MIR, "
                                                  "Value::fmt / escape_single_quote_string / EscapeQuotedString::fmt from the MIR of the sqlparser dependency")
    core.log(f"[K-sqlstr] {len(exits2)} exits, {nq} queries, {nviol} violations in {time.time()-t0:.1f}s")


def check_sqlident(R, drv, tier):
    """K-sqlident (C09): a name that is written quoted denotes exactly that name.
    prqlc `translate_ident_part` from the prqlc MIR (regex verdict, keyword verdict, quoting style and the dialect's quote character are
    symbolic), sqlparser `Ident::with_quote` / `<Ident as Display>::fmt` / `escape_quoted_string` / `<EscapeQuotedString as Display>::fmt`
    from the MIR of the dependency. Per exit path with a quote style, z3 decides that the characters written are one q...q token of a
    lexer whose only escape is the doubled quote character, denoting the name."""
    import core
    import kernels
    import sqlite3
    from kchecks import _account
    t0 = time.time()
    L = 4 if tier == "quick" else 6
    try:
        src = kernels.sqlparser_src()
        vsrc = os.path.join(src, "src", "ast", "value.rs")
        msrc = os.path.join(src, "src", "ast", "mod.rs")
        register_enum("IdentQuotingStyle", enum_from_source(os.path.join(core.REPO, "prqlc/prqlc/src/sql/dialect.rs"), "IdentQuotingStyle"))
        lines = _display_lines(vsrc)
        mlines = _display_lines(msrc)
        if "Ident" not in mlines:
            raise Inconclusive("impl Display for Ident not found in sqlparser")
        funcs = dict(kernels.load(r"^gen_expr::translate_ident_part($|::promoted)"))
        funcs.update(kernels.load_sqlparser(r"^(escape_\w+$|ast::value::<impl at [^>]*value\.rs:(%s):|ast::<impl at [^>]*mod\.rs:%d:)" %
                                            ("|".join(str(v) for v in sorted(set(lines.values()))), mlines["Ident"])))
        ident_fmt = [n for n in funcs if re.search(r"mod\.rs:%d:[^>]*>::fmt$" % mlines["Ident"], n)]
        if len(ident_fmt) != 1:
            raise Inconclusive("Display body of sqlparser Ident not found")

        def display_fmt_of(tyname):
            short = re.sub(r"<.*", "", tyname).split("::")[-1]
            ln = lines.get(short)
            cands = [n for n in funcs if ln is not None and re.search(r"value\.rs:%d:[^>]*>::fmt$" % ln, n)]
            return cands[0] if len(cands) == 1 else None
        text, dom = symbolic_text(L)
        q = z3.BitVec("ident_quote", 32)
        is_bare, is_kw, style = z3.Bool("regex_says_bare"), z3.Bool("is_keyword"), z3.BitVec("quoting_style", 64)
        nstyles = len(VARIANTS["IdentQuotingStyle"])
        dom = dom + [z3.Or(q == 34, q == 96), z3.ULT(style, nstyles)]
        sb = stubs(display_fmt_of)
        sb.update({
            "valid_ident": lambda I, st, a: SOpaque("regex", False),
            "regex::Regex::is_match": lambda I, st, a: SBool(is_bare),
            "is_keyword": lambda I, st, a: SBool(is_kw),
            "keywords::is_keyword": lambda I, st, a: SBool(is_kw),
            "<dyn DialectHandler as DialectHandler>::ident_quoting_style": lambda I, st, a: SEnum("IdentQuotingStyle", style, {}),
            "<dyn DialectHandler as DialectHandler>::ident_quote": lambda I, st, a: SInt(q, 32, False),
            "sqlparser::ast::Ident::new": lambda I, st, a: SAgg("struct", "Ident", {0: a[0], 1: none(), "value": a[0], "quote_style": none()}),
            "sqlparser::ast::Ident::with_quote": lambda I, st, a: SAgg("struct", "Ident", {0: a[1], 1: some(a[0]), "value": a[1], "quote_style": some(a[0])}),
        })
        pats = [(re.compile(rx), sb[key]) for rx, key in PATTERNS]

        def interp():
            I = Interp(funcs, stubs=sb, unwind=2 * L + 4, timeout_s=300 if tier == "quick" else 1200, max_paths=20000)
            I.stub_patterns = pats
            I.lazy = False
            return I
        I1 = interp()
        I1.opaque_sinks = True
        I1.lazy = True          # helpers of the current tree that translate_ident_part calls are loaded from the prqlc MIR
        ex1 = I1.run("gen_expr::translate_ident_part", [text, SOpaque("ctx", False)], dom)
        _account(R, I1, "K-sqlident")
        exits2 = []
        for e in ex1:
            if e.kind != "return":
                exits2.append((e, None))
                continue
            idv = e.value
            if not (isinstance(idv, SAgg) and idv.name == "Ident"):
                R.engine_error(f"K-sqlident: translate_ident_part returned {str(idv)[:160]}")
                continue
            if isinstance(idv.f[1], SEnum) and idv.f[1].disc == 0:
                continue            # written bare: the identifier tables decide (retab)
            I2 = interp()
            st = State()
            st.pc = list(e.pc)
            st.heap.append(idv)
            st.frames.append(I2.new_frame(ident_fmt[0], [SRef(-1, ("cell", 0)), SOpaque("formatter", False)]))
            I2.deadline = time.time() + I2.timeout_s
            I2.exits = []
            I2.explore(st)
            _account(R, I2, "K-sqlident")
            exits2 += [(x, idv) for x in I2.exits]
    except Inconclusive as e:
        R.engine_error(f"K-sqlident: {e}")
        return
    rets = [x for x, _ in exits2 if x.kind == "return"]
    if len(rets) < L + 1:
        R.engine_error(f"K-sqlident: vacuous - {len(rets)} return exits")
    nviol = nq = 0
    seen = set()
    for e, idv in exits2:
        if e.kind not in ("return", "panic"):
            R.engine_error(f"K-sqlident: exit {e.kind} {e.msg}")
            continue
        for n in range(L + 1):
            pc = list(e.pc) + [text.n == n]
            if e.kind == "panic":
                goal = z3.BoolVal(True)
            else:
                try:
                    out = output_chars(e.trace, lambda t: n if t is text else z3.simplify(t.n).as_long())
                except Exception as ex:
                    R.engine_error(f"K-sqlident: output of a return path not understood: {ex}")
                    break
                goal = z3.Not(reads_back(out, text.ch[:n], q))
            # names that PRQL source can spell (no backtick) and SQLite can hold first, then anything
            nice = [z3.And(c != 96, c != 0) for c in text.ch[:n]] + [q == 34]
            v, model, dt = kernels.check(pc + nice, goal, timeout_ms=60000)
            if v != "sat":
                v2, model2, dt2 = kernels.check(pc, goal, timeout_ms=60000)
                v, model, dt = v2, model2, dt + dt2
            nq += 1
            R.q(v, dt)
            if v == "unknown":
                R.engine_error("K-sqlident: unknown")
            if v != "sat":
                continue
            cps = [model.eval(text.ch[i], model_completion=True).as_long() for i in range(n)]
            qc = model.eval(q, model_completion=True).as_long()
            name = "".join(chr(c) if c in (34, 96, 92, 39) else "abcdefghij"[i] for i, c in enumerate(cps)) if e.kind == "return" else "".join(chr(c) for c in cps)
            if (name, qc) in seen:
                continue
            seen.add((name, qc))
            if "`" in name or qc != 34 or not name:
                R.cov.setdefault("unobservable_models", []).append(["K-sqlident", name, chr(qc), "not spellable in PRQL source / no engine for this quote character"])
                continue
            prql = f"from t\nselect {{`{name}`}}\n"
            r = drv.compile(prql, "sql.sqlite")
            if r.get("panic"):
                nviol += 1
                R.violation({"engine": "mirsym", "kernel": "K-sqlident", "kind": "panic"}, f"K-sqlident: the column name {name!r} makes the compiler panic: {r['panic'][:120]}",
                            {"prql": prql, "text": name})
                continue
            if not r.get("ok") or not r.get("sql"):
                R.engine_error(f"K-sqlident: replay program does not compile: {prql!r}: {str(r)[:200]}")
                continue
            sql, got, err = r["sql"], None, None
            try:
                con = sqlite3.connect(":memory:")
                con.execute("create table t(%s, zz)" % ('"' + name.replace('"', '""') + '"'))
                con.execute("insert into t values (7, 8)")
                cur = con.execute(sql)
                got = (cur.fetchall(), [d[0] for d in cur.description])
            except Exception as ex:
                err = str(ex)
            if err is not None or got != ([(7,)], [name]):
                nviol += 1
                R.violation({"engine": "mirsym", "kernel": "K-sqlident", "kind": "quoted_identifier", "has_backslash": "\\" in name, "adjacent_quotes": '""' in name},
                            f"K-sqlident: the column name {name!r} is emitted as {sql.strip()[:80]!r}; on a table whose column has exactly that name SQLite " +
                            (f"rejects the statement ({err})" if err else f"returns {got!r}") + ", expected the column's value 7 under that name",
                            {"prql": prql, "sql": sql, "text": name, "sqlite": err or repr(got), "kind": "ident"})
            else:
                R.engine_error(f"ENCODER-MISMATCH K-sqlident: the model name {name!r} does not reproduce through prqlc::compile + SQLite ({sql.strip()[:80]})")
    R.sample({"kernel": "K-sqlident", "exits": len(exits2), "queries": nq, "property": f"for every name of <= {L} characters that is written quoted (any regex / keyword verdict, both "
              "quoting styles, quote character \" or `), the text written is one quoted-identifier token (doubled quote = the only escape) denoting exactly that name", "wall_s": round(time.time() - t0, 2)})
    R.cov.setdefault("bounds", {})["K-sqlident"] = (f"names of at most {L} characters, every code point, symbolic length; translate_ident_part from the prqlc MIR, Ident::fmt / "
                                                    "escape_quoted_string / EscapeQuotedString::fmt from the MIR of the sqlparser dependency")
    core.log(f"[K-sqlident] {len(exits2)} exits, {nq} queries, {nviol} violations in {time.time()-t0:.1f}s")


def check_litnum(R, drv, tier, want=("spec", "panic")):
    """K-litnum (C08 / C12): how an integer literal is handed to the SQL library, for every i64.
    `translate_literal` (arm Literal::Integer, prqlc MIR) is executed with a symbolic value; `format!` of an integer is a model that
    keeps (type, term) - "the decimal spelling of this number". Decided by z3 per exit path:
      spec   the result is either Number(dec(i)) with i >= 0 ... or a unary minus applied to Number(dec(m)) with m the magnitude of a
             negative i as an unsigned number (so that -m = i for every i, i64::MIN included); the `long` flag (an `L` suffix) is false;
      panic  no panic exit (negating / abs of i64::MIN) is reachable."""
    import core
    import kernels
    from kchecks import _account
    t0 = time.time()
    try:
        src = kernels.sqlparser_src()
        register_enum("Literal", enum_from_source(os.path.join(core.REPO, "prqlc/prqlc-parser/src/lexer/lr.rs"), "Literal"))
        vs = enum_from_source(os.path.join(src, "src", "ast", "value.rs"), "Value")
        register_enum("Value", [v for i, v in enumerate(vs) if v not in vs[:i]])
        register_enum("Expr", enum_from_source(os.path.join(src, "src", "ast", "mod.rs"), "Expr"))
        register_enum("UnaryOperator", enum_from_source(os.path.join(src, "src", "ast", "operator.rs"), "UnaryOperator"))
        funcs = dict(kernels.load(r"^gen_expr::translate_literal($|::promoted)"))
        i = z3.BitVec("lit_i", 64)

        def m_new_display(I, st, a):
            return SAgg("fmtarg", "", {0: models.deref(I, st, a[0])})

        def m_args_new(I, st, a):
            return SAgg("fmtargs", "", {0: models.deref(I, st, a[0]), 1: models.deref(I, st, a[1])})

        def m_format(I, st, a):
            fa = a[0]
            parts = decode_template(fa.f[0].f[0])
            argv = [fa.f[1].f[k] for k in sorted(k for k in fa.f[1].f if isinstance(k, int))]
            if len(parts) != 1 or parts[0][0] != "arg":
                raise Inconclusive(f"K-litnum: template {parts}")
            v = models.deref(I, st, argv[parts[0][1]].f[0])
            if not isinstance(v, (SInt, SFloat)):
                raise Inconclusive(f"K-litnum: formatted value {v}")
            return SAgg("dec", "", {0: v})

        def m_new_debug(I, st, a):
            return SAgg("fmtarg", "", {0: models.deref(I, st, a[0])})

        def m_is_sign_negative(I, st, a):
            return SBool(z3.Extract(63, 63, a[0].bits) == 1)

        def m_is_nan(I, st, a):
            return SBool(z3.fpIsNaN(a[0].fp()))

        def m_is_infinite(I, st, a):
            return SBool(z3.And(z3.Extract(62, 52, a[0].bits) == 0x7FF, z3.Extract(51, 0, a[0].bits) == 0))

        def m_is_finite(I, st, a):
            return SBool(z3.Extract(62, 52, a[0].bits) != 0x7FF)

        def m_into(I, st, a):
            return SAgg("struct", "ValueWithSpan", {"value": a[0], 0: a[0]})
        pats = [(re.compile(p), f) for p, f in [
            (r"^core::f64::<impl f64>::is_infinite$", m_is_infinite), (r"^core::f64::<impl f64>::is_finite$", m_is_finite),
            (r"^core::fmt::rt::Argument::<'_>::new_display$", m_new_display), (r"^(core::fmt::|std::fmt::)?Arguments::<'_>::new$", m_args_new),
            (r"^core::fmt::rt::Argument::<'_>::new_debug$", m_new_debug),
            (r"^core::f64::<impl f64>::is_sign_negative$", m_is_sign_negative), (r"^core::f64::<impl f64>::is_nan$", m_is_nan),
            (r"^(std|alloc)::fmt::format$", m_format), (r"^must_use$", lambda I, st, a: a[0]),
            (r"^<(sqlparser::ast::)?Value as (std::convert::|core::convert::)?Into<(sqlparser::ast::)?ValueWithSpan>>::into$", m_into),
            (r"^Box::<.*>::new$", lambda I, st, a: a[0]),
        ]]
        I = Interp(funcs, unwind=8, timeout_s=120)
        I.stub_patterns = pats
        I.lazy = True
        lit = mk_enum("Literal", "Integer", {0: SInt(i, 64, True)})
        exits = I.run("gen_expr::translate_literal", [lit, SOpaque("ctx", False)], [])
        fb = z3.BitVec("lit_f_bits", 64)
        I2 = Interp(funcs, unwind=8, timeout_s=120)
        I2.stub_patterns = pats
        I2.lazy = True
        fexits = I2.run("gen_expr::translate_literal", [mk_enum("Literal", "Float", {0: SFloat(fb)}), SOpaque("ctx", False)], [])
    except Inconclusive as e:
        R.engine_error(f"K-litnum: {e}")
        return
    _account(R, I, "K-litnum")
    _account(R, I2, "K-litnum")
    iv, ie, iu = VARIANTS["Expr"].index("Value"), VARIANTS["Expr"].index("UnaryOp"), VARIANTS["UnaryOperator"].index("Minus")
    inum = VARIANTS["Value"].index("Number")
    nret = 0

    def number_of(ex):
        """(dec term SInt, long flag) of Expr::Value(ValueWithSpan{Value::Number(dec, long)}) or None"""
        if not (isinstance(ex, SEnum) and ex.ty == "Expr" and ex.disc == iv):
            return None
        val = ex.pay[iv][0].f["value"]
        if not (isinstance(val, SEnum) and val.ty == "Value" and val.disc == inum):
            return None
        d, lg = val.pay[inum][0], val.pay[inum][1]
        if not (isinstance(d, SAgg) and d.kind == "dec" and isinstance(lg, SBool)):
            return None
        return d.f[0], lg.t

    def replay(n, what):
        prql = f"from t\nselect {{x = {n}}}\n" if n >= 0 else f"from t\nderive {{n = {n}}}\nselect {{x = n}}\n"
        r = drv.compile(prql, "sql.sqlite")
        import sqlite3
        if r.get("panic"):
            R.violation({"engine": "mirsym", "kernel": "K-litnum", "kind": "panic"}, f"K-litnum: the integer literal {n} makes the compiler panic: {r['panic'][:120]}", {"prql": prql})
            return
        got = err = None
        if r.get("ok"):
            try:
                con = sqlite3.connect(":memory:")
                con.execute("create table t(a)")
                con.execute("insert into t values (1)")
                got = con.execute(r["sql"]).fetchall()
            except Exception as ex:
                err = str(ex)
        if not r.get("ok") or err or got != [(n,)]:
            R.violation({"engine": "mirsym", "kernel": "K-litnum", "kind": "integer_value"},
                        f"K-litnum: the integer literal {n} is emitted as {str(r.get('sql') or r.get('errors'))[:100]!r} ({what}); SQLite: {err or got}", {"prql": prql, "sql": r.get("sql")})
        else:
            R.engine_error(f"ENCODER-MISMATCH K-litnum: the model {n} ({what}) does not reproduce through prqlc::compile + SQLite")

    for e in exits:
        if e.kind == "panic":
            if "panic" not in want:
                continue
            v, model, dt = kernels.check(e.pc, z3.BoolVal(True))
            R.q(v, dt)
            if v == "sat":
                replay(kernels.bv_to_py(model, i), f"panic exit: {e.msg}")
            continue
        if e.kind != "return":
            R.engine_error(f"K-litnum: exit {e.kind} {e.msg}")
            continue
        nret += 1
        if "spec" not in want:
            continue
        v0 = e.value
        ok = isinstance(v0, SEnum) and v0.ty == "Result" and v0.disc == 0
        ex = v0.pay[0][0] if ok else None
        goal = None
        plain = number_of(ex) if ok else None
        if plain is not None:
            d, lg = plain
            w = d.bits
            same = (z3.SignExt(64 - w, d.t) if d.signed else z3.ZeroExt(64 - w, d.t)) == i if w < 64 else d.t == i
            nonneg = z3.BoolVal(True) if d.signed else (i >= 0)
            goal = z3.Not(z3.And(same, nonneg, i >= 0, z3.Not(lg)))
        elif ok and isinstance(ex, SEnum) and ex.ty == "Expr" and ex.disc == ie:
            pay = ex.pay[ie]
            op, inner = pay.get("op", pay.get(0)), pay.get("expr", pay.get(1))
            inner = models.deref(I, State(), inner) if isinstance(inner, SRef) else inner
            mag = number_of(inner)
            if isinstance(op, SEnum) and op.disc == iu and mag is not None:
                d, lg = mag
                m64 = z3.ZeroExt(64 - d.bits, d.t) if d.bits < 64 else d.t
                # -m = i as 64-bit numbers, and m is the true magnitude: i < 0 and (unsigned) m <= 2^63
                goal = z3.Not(z3.And(i < 0, (0 - m64) == i, z3.ULE(m64, z3.BitVecVal(1 << 63, 64)), z3.Not(lg),
                                     z3.BoolVal(not d.signed) if d.bits == 64 else z3.BoolVal(True)))
        if goal is None:
            R.engine_error(f"K-litnum: result not understood: {str(v0)[:200]}")
            continue
        v, model, dt = kernels.check(e.pc, goal)
        R.q(v, dt)
        if v == "unknown":
            R.engine_error("K-litnum: unknown")
        if v == "sat":
            replay(kernels.bv_to_py(model, i), "the emitted number is not the literal's value")
    # ---- floats: the text handed over never starts with a minus sign (a non-NaN float with the sign bit set goes through the minus form)
    import struct
    nfret = 0
    for e in fexits:
        if e.kind == "panic":
            v, model, dt = kernels.check(e.pc, z3.BoolVal(True))
            R.q(v, dt)
            if v == "sat" and "panic" in want:
                R.engine_error(f"K-litnum: a panic exit of the float arm is reachable ({e.msg}); no replay for floats")
            continue
        if e.kind != "return":
            R.engine_error(f"K-litnum: float exit {e.kind} {e.msg}")
            continue
        nfret += 1
        if "spec" not in want:
            continue
        v0 = e.value
        ok = isinstance(v0, SEnum) and v0.ty == "Result" and v0.disc == 0
        ex = v0.pay[0][0] if ok else None
        sign = z3.Extract(63, 63, fb) == 1
        nan = z3.fpIsNaN(z3.fpBVToFP(fb, z3.Float64()))
        goal = None
        if isinstance(v0, SEnum) and v0.ty == "Result" and v0.disc == 1:
            # an error return is a correct answer only for a value that has no numeric spelling (an infinity or NaN)
            v, model, dt = kernels.check(e.pc, z3.Extract(62, 52, fb) != 0x7FF)
            R.q(v, dt)
            if v != "unsat":
                R.engine_error(f"K-litnum: translate_literal can return an error for a finite float ({v}); no replay for this exit")
            continue
        plain = number_of(ex) if ok else None
        if plain is not None and isinstance(plain[0], SFloat):
            d, lg = plain
            goal = z3.Not(z3.And(d.bits == fb, z3.Or(z3.Not(sign), nan), z3.Not(lg)))
        elif ok and isinstance(ex, SEnum) and ex.ty == "Expr" and ex.disc == ie:
            pay = ex.pay[ie]
            op, inner = pay.get("op", pay.get(0)), pay.get("expr", pay.get(1))
            mag = number_of(inner)
            if isinstance(op, SEnum) and op.disc == iu and mag is not None and isinstance(mag[0], SFloat):
                d, lg = mag
                goal = z3.Not(z3.And(sign, z3.Not(nan), d.bits == (fb ^ z3.BitVecVal(1 << 63, 64)), z3.Not(lg)))
        if goal is None:
            R.engine_error(f"K-litnum: float result not understood: {str(v0)[:200]}")
            continue
        # the number handed over as a numeric token is finite: `{f:?}` spells an infinity as the bare word `inf`, which SQL reads
        # as a column name. NaN is assumed away: no source spelling lexes to it and JSON cannot carry it.
        hb = (plain or mag)[0].bits
        infinite = z3.And(z3.Extract(62, 52, hb) == 0x7FF, z3.Extract(51, 0, hb) == 0)
        v, model, dt = kernels.check(e.pc, z3.And(infinite, z3.Not(nan)))
        R.q(v, dt)
        if v == "unknown":
            R.engine_error("K-litnum: unknown (float, finiteness)")
        if v == "sat":
            neg = (model.eval(fb, model_completion=True).as_long() >> 63) & 1
            src = "-1e999" if neg else "1e999"
            prql = f"from t\nselect {{x = {src}}}\n"
            r = drv.compile(prql, "sql.sqlite")
            import sqlite3
            got = err = None
            if r.get("ok"):
                try:
                    con = sqlite3.connect(":memory:")
                    con.execute("create table t(a)")
                    con.execute("insert into t values (1)")
                    got = con.execute(r["sql"]).fetchall()
                except Exception as ex2:
                    err = str(ex2)
            want_f = float("-inf") if neg else float("inf")
            if r.get("panic") or (r.get("ok") and (err or got is None or len(got) != 1 or got[0][0] != want_f)):
                R.violation({"engine": "mirsym", "kernel": "K-litnum", "kind": "float_nonfinite"},
                            f"K-litnum: the float literal {src} (lexed as an infinity) is emitted as {str(r.get('sql') or r.get('panic'))[:100]!r}; SQLite: {err or got}",
                            {"prql": prql, "sql": r.get("sql"), "detail": err or str(got)})
            elif r.get("ok"):
                R.engine_error(f"ENCODER-MISMATCH K-litnum: the infinite float model does not reproduce through prqlc::compile + SQLite ({src})")
            # a compile error for an out-of-range literal is a correct answer
        v, model, dt = kernels.check(e.pc, goal)
        R.q(v, dt)
        if v == "unknown":
            R.engine_error("K-litnum: unknown (float)")
        if v != "sat":
            continue
        bits = model.eval(fb, model_completion=True).as_long()
        f = struct.unpack("<d", struct.pack("<Q", bits))[0]
        if f != f or f in (float("inf"), float("-inf")):
            R.cov.setdefault("unobservable_models", []).append(["K-litnum", hex(bits), "NaN / infinity cannot be written as a PRQL literal that SQLite evaluates"])
            continue
        # replay: the constant is bound to a column and negated - the hazard of a leading minus sign is `--`
        prql = f"from t\nderive {{n = {f!r}}}\nselect {{x = -n}}\n"
        r = drv.compile(prql, "sql.sqlite")
        import sqlite3
        got = err = None
        if r.get("ok"):
            try:
                con = sqlite3.connect(":memory:")
                con.execute("create table t(a)")
                con.execute("insert into t values (1)")
                got = con.execute(r["sql"]).fetchall()
            except Exception as ex2:
                err = str(ex2)
        if r.get("panic") or not r.get("ok") or err or got is None or len(got) != 1 or got[0][0] != -f:
            R.violation({"engine": "mirsym", "kernel": "K-litnum", "kind": "float_sign"},
                        f"K-litnum: a column bound to the float constant {f!r} and negated is emitted as {str(r.get('sql') or r.get('errors') or r.get('panic'))[:100]!r}; SQLite: {err or got}",
                        {"prql": prql, "sql": r.get("sql")})
        else:
            R.engine_error(f"ENCODER-MISMATCH K-litnum: the float model {f!r} does not reproduce through prqlc::compile + SQLite")
    if nret < 2 or nfret < 2:
        R.engine_error(f"K-litnum: vacuous - {nret} integer / {nfret} float return exits")
    R.sample({"kernel": "K-litnum", "exits": len(exits), "property": "for every i64 the integer literal is handed over as Number(decimal of i) for i >= 0 and as minus applied to "
              "Number(decimal of the unsigned magnitude) for i < 0, never with the L suffix; no panic exit", "wall_s": round(time.time() - t0, 2)})
    core.log(f"[K-litnum] {len(exits)} exits in {time.time()-t0:.1f}s")
