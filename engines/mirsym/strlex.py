"""K-strlex: which value a quoted PRQL string denotes (C08, reading side; also the reader half of C14's print/lex round trip).

The string reader of the lexer is not a combinator tree but a hand-written cursor loop (`lexer::multi_quoted_string`'s custom
closure and `lexer::parse_escape_sequence`); both bodies are executed from the prqlc-parser MIR on an input whose SHAPE is
enumerated (delimiter quote, delimiter length, the form of every content element) and whose CHARACTERS are symbolic:

  form P   a plain character: any code point except the backslash (quotes restricted as below)
  form E   `\\` + one of  \\ ' " b f n r t            (the two-character escapes of the language reference)
  form X   `\\x` + two hex digits                     (both digits symbolic)
  form Uk  `\\u{` + k hex digits + `}` (k = 1..6)     (digits symbolic; value a Unicode scalar)

Documented meaning (book, syntax/strings.md): a string is delimited by an odd number n of one quote character and ends at the next
run of n such quotes; escapes denote the listed characters. To stay inside what the book fixes, the content has no plain run of n
delimiter quotes, does not start or end with a plain delimiter quote (the text would merge with the delimiter), and the character
after the closing delimiter is not that quote. Everything else about the characters is left to the solver.

Decided per exit path by z3: the closure returns Ok(chars) with exactly the documented characters, and the cursor stands
right behind the closing delimiter (the literal's extent is the delimited text - nothing of it leaks into the surrounding program).
Err exits and panics reachable under the precondition are violations as well. Models are replayed through the real lexer.

Models local to this kernel: chumsky `InputRef::{peek,next,save,rewind}` as a cursor over the character array (span_since /
peek_maybe / Simple::new / Checkpoint::cursor are opaque: they only feed error values), String::{new,push,len} and Vec<char> as
lists, u32::from_str_radix(_, 16) over hex-digit characters, char::from_u32, char::is_ascii_hexdigit, Option<char> equality,
Range<i32> iteration.
"""
import itertools
import os
import re
import time

import z3

from sym import *  # noqa
import models
from sqlstr import Txt

BS, SQ, DQ = 92, 39, 34
E_MAP = {92: 92, 39: 39, 34: 34, ord("b"): 8, ord("f"): 12, ord("n"): 10, ord("r"): 13, ord("t"): 9}


def bv(c):
    return z3.BitVecVal(c if isinstance(c, int) else ord(c), 32)


def is_hex(c):
    return z3.Or(z3.And(z3.UGE(c, 48), z3.ULE(c, 57)), z3.And(z3.UGE(c, 97), z3.ULE(c, 102)), z3.And(z3.UGE(c, 65), z3.ULE(c, 70)))


def hexval(c):
    return z3.If(z3.ULE(c, 57), c - 48, z3.If(z3.UGE(c, 97), c - 87, c - 55))


def scalar(c):
    return z3.And(z3.ULE(c, 0x10FFFF), z3.Or(z3.ULT(c, 0xD800), z3.UGT(c, 0xDFFF)))


def stubs():
    def cur(I, st, r):
        c = models.deref(I, st, r)
        if not (isinstance(c, SAgg) and c.kind == "inputref"):
            raise Inconclusive(f"K-strlex: input operand {c}")
        return c

    def setpos(I, st, r, c, pos):
        nf = dict(c.f)
        nf["pos"] = pos
        I.write(st, r.depth, r.place, SAgg("inputref", "", nf))
        st.trace.append(("pos", pos))

    def at(c):
        s, i = c.f[0], c.f["pos"]
        return some(SInt(s.ch[i], 32, False)) if i < len(s.ch) else none()

    def m_peek(I, st, a):
        return at(cur(I, st, a[0]))

    def m_next(I, st, a):
        c = cur(I, st, a[0])
        v = at(c)
        if c.f["pos"] < len(c.f[0].ch):
            setpos(I, st, a[0], c, c.f["pos"] + 1)
        return v

    def m_save(I, st, a):
        return SAgg("checkpoint", "", {"pos": cur(I, st, a[0]).f["pos"]})

    def m_rewind(I, st, a):
        c, cp = cur(I, st, a[0]), models.deref(I, st, a[1])
        setpos(I, st, a[0], c, cp.f["pos"])
        return SUnit()

    def opaque(label):
        return lambda I, st, a: SOpaque(label, taint=False)

    def m_string_new(I, st, a):
        return SVec([])

    def m_string_len(I, st, a):
        v = models.deref(I, st, a[0])
        # byte length; every character pushed so far is an ASCII hex digit on this path (the push is guarded by is_ascii_hexdigit)
        return const_int(len(v.items), 64, False)

    def m_from_str_radix(I, st, a):
        v = models.deref(I, st, a[0])
        if not isinstance(v, SVec):
            raise Inconclusive(f"K-strlex: from_str_radix of {v}")
        if not v.items:
            return SEnum("Result", 1, {1: {0: SOpaque("ParseIntError", False)}})
        if len(v.items) > 7:
            raise Inconclusive("K-strlex: from_str_radix of more than 7 digits")
        t = z3.BitVecVal(0, 32)
        for d in v.items:
            t = t * 16 + hexval(d.t)
        return SEnum("Result", 0, {0: {0: SInt(t, 32, False)}})

    def m_result_unwrap_or(I, st, a):
        r, d = a
        if isinstance(r.disc, int):
            return r.pay[0][0] if r.disc == 0 else d
        raise Inconclusive("K-strlex: unwrap_or on a symbolic Result")

    def m_from_u32(I, st, a):
        v = a[0]
        return [(scalar(v.t), some(SInt(v.t, 32, False))), (z3.Not(scalar(v.t)), none())]

    def m_is_hexdigit(I, st, a):
        c = models.deref(I, st, a[0])
        return SBool(is_hex(c.t))

    def m_opt_char_eq(I, st, a):
        x, y = models.deref(I, st, a[0]), models.deref(I, st, a[1])
        if not (isinstance(x, SEnum) and isinstance(y, SEnum) and isinstance(x.disc, int) and isinstance(y.disc, int)):
            raise Inconclusive(f"K-strlex: Option<char> equality of {x}, {y}")
        if x.disc != y.disc:
            return SBool(z3.BoolVal(False))
        if x.disc == 0:
            return SBool(z3.BoolVal(True))
        return SBool(x.pay[1][0].t == y.pay[1][0].t)

    def m_range_into_iter(I, st, a):
        return a[0]

    def m_range_next(I, st, a):
        r = a[0]
        v = models.deref(I, st, r)
        s, e = v.f.get("start", v.f.get(0)), v.f.get("end", v.f.get(1))
        sv, ev = z3.simplify(s.t), z3.simplify(e.t)
        if not (z3.is_bv_value(sv) and z3.is_bv_value(ev)):
            raise Inconclusive("K-strlex: symbolic Range<i32>")
        if sv.as_signed_long() >= ev.as_signed_long():
            return none()
        nf = dict(v.f)
        nxt = SInt(z3.BitVecVal(sv.as_signed_long() + 1, 32), 32, True)
        for k in ("start", 0):
            if k in nf:
                nf[k] = nxt
        I.write(st, r.depth, r.place, SAgg(v.kind, v.name, nf))
        return some(s)

    return [
        (r"^InputRef::<.*>::peek$", m_peek), (r"^InputRef::<.*>::next$", m_next), (r"^InputRef::<.*>::save$", m_save),
        (r"^InputRef::<.*>::rewind$", m_rewind), (r"^InputRef::<.*>::span_since$", opaque("span")),
        (r"^InputRef::<.*>::peek_maybe$", opaque("maybe")), (r"^Checkpoint::<.*>::cursor$", opaque("cursor")),
        (r"^chumsky::error::Simple::<.*>::new$", opaque("lexer-error")),
        (r"^(std::string::|alloc::string::)?String::new$", m_string_new), (r"^(std::string::|alloc::string::)?String::len$", m_string_len),
        (r"^(std::string::|alloc::string::)?String::push$", models.m_vec_push),
        (r"^core::num::<impl u32>::from_str_radix$", m_from_str_radix),
        (r"^(std::result::|core::result::)?Result::<u32, .*ParseIntError>::unwrap_or$", m_result_unwrap_or),
        (r"^(core::)?char::methods::<impl char>::from_u32$", m_from_u32),
        (r"^(core::)?char::methods::<impl char>::is_ascii_hexdigit$", m_is_hexdigit),
        (r"^<(std::option::|core::option::)?Option<char> as PartialEq>::eq$", m_opt_char_eq),
        (r"^<(std|core)::ops::Range<i32> as IntoIterator>::into_iter$", m_range_into_iter),
        (r"^<(std|core)::ops::Range<i32> as Iterator>::next$", m_range_next),
    ]


FORMS_QUICK = ["P", "E", "X", "U1", "U4", "U6"]
FORMS_ALL = ["P", "E", "X", "U1", "U2", "U3", "U4", "U5", "U6"]


def build(q, n, forms, tail, tag):
    """input characters, expected value characters, precondition, end position of the literal"""
    ch, exp, pre = [], [], []
    plain_q = []            # per content element: z3 Bool "is a plain delimiter quote"
    ch += [bv(q)] * n
    for k, f in enumerate(forms):
        if f == "P":
            c = z3.BitVec(f"{tag}_p{k}", 32)
            pre += [scalar(c), c != BS]
            ch.append(c)
            exp.append(c)
            plain_q.append(c == q)
        elif f == "E":
            e = z3.BitVec(f"{tag}_e{k}", 32)
            pre.append(z3.Or(*[e == x for x in E_MAP]))
            ch += [bv(BS), e]
            v = bv(0)
            for x, y in E_MAP.items():
                v = z3.If(e == x, bv(y), v)
            exp.append(v)
            plain_q.append(z3.BoolVal(False))
        elif f == "X":
            h = [z3.BitVec(f"{tag}_x{k}_{i}", 32) for i in range(2)]
            pre += [is_hex(x) for x in h]
            ch += [bv(BS), bv("x")] + h
            exp.append(hexval(h[0]) * 16 + hexval(h[1]))
            plain_q.append(z3.BoolVal(False))
        else:
            nd = int(f[1:])
            h = [z3.BitVec(f"{tag}_u{k}_{i}", 32) for i in range(nd)]
            pre += [is_hex(x) for x in h]
            v = bv(0)
            for x in h:
                v = v * 16 + hexval(x)
            pre.append(scalar(v))
            ch += [bv(BS), bv("u"), bv("{")] + h + [bv("}")]
            exp.append(v)
            plain_q.append(z3.BoolVal(False))
    # no plain run of n delimiter quotes; content neither starts nor ends with a plain delimiter quote
    if plain_q:
        pre += [z3.Not(plain_q[0]), z3.Not(plain_q[-1])]
    for i in range(len(plain_q) - n + 1):
        pre.append(z3.Not(z3.And(*plain_q[i:i + n])))
    if n == 1:
        pre += [z3.Not(p) for p in plain_q]
    ch += [bv(q)] * n
    end = len(ch)
    if tail:
        t = z3.BitVec(f"{tag}_tail", 32)
        pre += [scalar(t), t != q]
        ch.append(t)
    return ch, exp, pre, end


def shapes(tier):
    forms = FORMS_QUICK if tier == "quick" else FORMS_ALL
    maxlen = 2 if tier == "quick" else 3
    ns = (1, 3) if tier == "quick" else (1, 3, 5)
    for q in (DQ, SQ):
        for n in ns:
            for L in range(0, maxlen + 1):
                if n == 1 and L == 0:
                    continue            # `""`: an even run of quotes (covered as the n = 2 case below)
                if L == 3 and n == 5:
                    continue            # thorough: triples only under delimiters of 1 and 3 quotes
                for fs in itertools.product(forms if L < 3 else FORMS_QUICK, repeat=L):
                    for tail in ((True, False) if (L <= 1 or (tier != "quick" and L <= 2)) else (True,)):
                        yield q, n, fs, tail
            # longer contents of plain characters only (runs of quotes shorter than the delimiter inside the text)
            for L in range(maxlen + 1, (6 if tier == "quick" else 8)):
                yield q, n, ("P",) * L, True


def check_strlex(R, drv, tier):
    import core
    import kernels
    from kchecks import _account
    t0 = time.time()
    try:
        funcs = kernels.load_parser(r"^(multi_quoted_string::\{closure#0\}|parse_escape_sequence)($|::promoted)")
        name = "multi_quoted_string::{closure#0}"
        if name not in funcs or "parse_escape_sequence" not in funcs:
            raise Inconclusive("string reader bodies not found in the prqlc-parser MIR")
        pats = [(re.compile(rx), fn) for rx, fn in stubs()]
    except Inconclusive as e:
        R.engine_error(f"K-strlex: {e}")
        return
    nshape = nexits = nviol = nprobe = 0
    acc = None
    seen = set()

    def run_shape(q, n, fs, tail, even=False):
        nonlocal nexits, acc
        ch, exp, pre, end = build(q, n, fs, tail, "s")
        if even:
            # an even run of quotes (n = 2, 4): the empty string, and the cursor behind the run
            ch, exp, pre, end = [bv(q)] * n, [], [], n
            if tail:
                t = z3.BitVec("s_tail", 32)
                pre += [scalar(t), t != q]
                ch = ch + [t]
        I = Interp(funcs, unwind=3 * len(ch) + 8, timeout_s=120, max_paths=5000)
        I.stub_patterns = pats
        I.lazy = False
        st = State()
        st.pc = list(pre)
        st.heap.append(SAgg("closure", "", {0: SInt(bv(q), 32, False), 1: SBool(z3.BoolVal(True))}))
        st.heap.append(SAgg("inputref", "", {0: Txt(ch, z3.BitVecVal(len(ch), 64), "input"), "pos": 0}))
        st.frames.append(I.new_frame(name, [SRef(-1, ("cell", 0)), SRef(-1, ("cell", 1))]))
        I.deadline = time.time() + I.timeout_s
        I.exits = []
        I.explore(st)
        nexits += len(I.exits)
        acc = I
        return I, ch, exp, pre, end

    def report(kind, q, n, fs, tail, ch, exp, end, model, detail):
        nonlocal nviol
        src = "".join(chr(model.eval(c, model_completion=True).as_long()) for c in ch)
        want = "".join(chr(model.eval(c, model_completion=True).as_long()) for c in exp)
        lit_chars = end
        r = drv.req(op="lex", prql=src)
        toks = r.get("tokens") or []
        ok_tok = r.get("ok") and len(toks) >= 2 and isinstance(toks[1].get("kind"), dict) and toks[1]["kind"].get("Literal", {}).get("String") == want \
            and toks[1]["span"]["end"] == len(src[:lit_chars].encode("utf-8")) and toks[1]["span"]["start"] == 0
        key = (src, want)
        if key in seen:
            return
        seen.add(key)
        if ok_tok:
            R.engine_error(f"ENCODER-MISMATCH K-strlex: the model source {src!r} ({detail}) lexes as expected in the real lexer")
            return
        nviol += 1
        got = (toks[1] if len(toks) >= 2 else None) if r.get("ok") else r.get("errors")
        R.violation({"engine": "mirsym", "kernel": "K-strlex", "kind": kind, "forms": "".join(f[0] for f in fs), "delimiter": n},
                    f"K-strlex: the source text {src!r} should lex to the string {want!r} spanning its first {lit_chars} characters; the lexer gives {str(got)[:160]}",
                    {"prql": src, "text": want, "lexed": str(got)[:400], "detail": detail, "expect_token": {"Literal": {"String": want}},
                     "expect_span_end": len(src[:lit_chars].encode("utf-8"))})

    todo = list(shapes(tier))
    evens = [(q, n, tail) for q in (DQ, SQ) for n in ((2,) if tier == "quick" else (2, 4)) for tail in (True, False)]
    budget = float(os.environ.get("VERIF_KERNEL_BUDGET_S", "0") or 0) or (2400.0 if tier == "thorough" else 1200.0)
    planned = len(todo) + len(evens)
    try:
        for item in [("even",) + e for e in evens] + todo:
            if time.time() - t0 > budget:
                R.cov.setdefault("bounds", {})["K-strlex-stopped"] = f"time budget of {budget:.0f} s reached after {nshape} of {planned} shapes; the rest was not explored in this run"
                break
            if item[0] == "even":
                _, q, n, tail = item
                fs = ()
                I, ch, exp, pre, end = run_shape(q, n, fs, tail, even=True)
            else:
                q, n, fs, tail = item
                I, ch, exp, pre, end = run_shape(q, n, fs, tail)
            nshape += 1
            good = 0
            # translator validation on a concrete point of this shape: the real lexer against the documented value
            sv = z3.Solver()
            sv.add(*pre)
            for c in ch:
                if not z3.is_bv_value(c) and ("_p" in str(c) or "_tail" in str(c)):
                    sv.add(z3.Or(z3.And(z3.UGE(c, 0x61), z3.ULE(c, 0x7A)), c == 0x20) if "_tail" in str(c) else z3.And(z3.UGE(c, 0x61), z3.ULE(c, 0x7A)))
            if sv.check() == z3.sat:
                mdl = sv.model()
                src0 = "".join(chr(mdl.eval(c, model_completion=True).as_long()) for c in ch)
                want0 = "".join(chr(mdl.eval(c, model_completion=True).as_long()) for c in exp)
                r0 = drv.req(op="lex", prql=src0)
                tk0 = r0.get("tokens") or []
                if r0.get("ok") and len(tk0) >= 2 and isinstance(tk0[1].get("kind"), dict) and tk0[1]["kind"].get("Literal", {}).get("String") == want0 \
                        and tk0[1]["span"]["end"] == len(src0[:end].encode("utf-8")):
                    nprobe += 1
            for e in I.exits:
                nice = []
                for c in ch:
                    if not z3.is_bv_value(c) and ("_p" in str(c) or "_tail" in str(c)):
                        nice.append(z3.Or(z3.And(z3.UGE(c, 0x61), z3.ULE(c, 0x7A)), c == SQ, c == DQ))

                def ask(goal):
                    v, model, dt = kernels.check(list(e.pc) + nice, goal, timeout_ms=30000)
                    if v != "sat" and nice:
                        v2, model2, dt2 = kernels.check(list(e.pc), goal, timeout_ms=30000)
                        v, model, dt = v2, model2, dt + dt2
                    R.q(v, dt)
                    if v == "unknown":
                        R.engine_error("K-strlex: unknown")
                    return v, model
                if e.kind == "panic":
                    v, model = ask(z3.BoolVal(True))
                    if v == "sat":
                        report("panic", q, n, fs, tail, ch, exp, end, model, f"panic: {e.msg}")
                    continue
                if e.kind != "return":
                    R.engine_error(f"K-strlex: exit {e.kind} {e.msg}")
                    continue
                val = e.value
                pos = [t[1] for t in e.trace if isinstance(t, tuple) and t and t[0] == "pos"]
                fin = pos[-1] if pos else 0
                if not (isinstance(val, SEnum) and val.ty == "Result" and isinstance(val.disc, int)):
                    R.engine_error(f"K-strlex: return value {str(val)[:120]}")
                    continue
                if val.disc != 0:
                    v, model = ask(z3.BoolVal(True))
                    if v == "sat":
                        report("rejected", q, n, fs, tail, ch, exp, end, model, "the reader returns an error")
                    continue
                items = val.pay[0][0].items
                if len(items) != len(exp) or fin != end:
                    v, model = ask(z3.BoolVal(True))
                    if v == "sat":
                        report("extent", q, n, fs, tail, ch, exp, end, model, f"{len(items)} characters read, cursor at {fin}; expected {len(exp)} characters, cursor at {end}")
                    continue
                goal = z3.Or(*[it.t != x for it, x in zip(items, exp)]) if exp else z3.BoolVal(False)
                v, model = ask(goal)
                if v == "sat":
                    report("value", q, n, fs, tail, ch, exp, end, model, "a character of the value differs")
                elif v == "unsat":
                    good += 1
            if good == 0 and not any(True for _ in ()):
                # vacuity: every shape must have at least one accepting path that is proven right (or a reported violation)
                if nviol == 0:
                    R.engine_error(f"K-strlex: shape {q} {n} {fs} tail={tail} has no accepting path")
    except Inconclusive as e:
        R.engine_error(f"K-strlex: {e}")
        return
    if acc is not None:
        _account(R, acc, "K-strlex")
    R.cov["states"] = R.cov.get("states", 0) + nexits
    R.cov["concrete_probes_validated"] = R.cov.get("concrete_probes_validated", 0) + nprobe
    if nprobe < nshape // 2:
        R.engine_error(f"K-strlex self-test: only {nprobe} of {nshape} concrete probes lex to the documented value in the real lexer")
    R.sample({"kernel": "K-strlex", "shapes": nshape, "exits": nexits, "property": "for every enumerated shape (quote, delimiter length, element forms) and all characters / hex digits "
              "within it, the string reader returns exactly the documented characters and stops right behind the closing delimiter", "wall_s": round(time.time() - t0, 2)})
    R.cov.setdefault("bounds", {})["K-strlex"] = (f"{nshape} shapes: quotes ' and \", delimiter lengths {'1,3' if tier == 'quick' else '1,3,5'} (+ even runs), content of at most "
                                                  f"{2 if tier == 'quick' else 3} elements, element forms {FORMS_QUICK if tier == 'quick' else FORMS_ALL}; all characters and hex digits symbolic")
    core.log(f"[K-strlex] {nshape} shapes, {nexits} exits, {nviol} violations in {time.time()-t0:.1f}s")


def strlex_is_hex(c):
    return is_hex(c)


def check_strlex_total(R, drv, tier):
    """K-strlex-total (C12): the string reader returns (Ok or Err) on EVERY input - no panic exit and no loop beyond the
    unwinding bound - for all inputs of M characters that start with a quote (every other character an arbitrary Unicode scalar;
    the input ends after M characters, so running into the end of the source is covered at every position)."""
    import core
    import kernels
    from kchecks import _account
    t0 = time.time()
    M = 6 if tier == "quick" else 8
    try:
        funcs = kernels.load_parser(r"^(multi_quoted_string::\{closure#0\}|parse_escape_sequence)($|::promoted)")
        name = "multi_quoted_string::{closure#0}"
        pats = [(re.compile(rx), fn) for rx, fn in stubs()]
        nexits = npanic = 0
        last = None
        seen_hang = set()
        # inputs: a quote followed by m-1 arbitrary characters; and, to reach deep into the escape reader with few paths, inputs whose
        # first characters after the quote are pinned to the start of an escape (`\\u{`, `\\x`, `\\`) followed by arbitrary characters
        plans = [(q, "", m) for q in (DQ, SQ) for m in range(0, M)]
        plans += [(DQ, "\\u{", k) for k in range(0, (9 if tier == "quick" else 11))] + [(DQ, "\\x", k) for k in range(0, 5)] + [(SQ, "\\", k) for k in range(0, 5)]
        for q, pinned, m in plans:
            if True:
                ch = [bv(q)] + [bv(c) for c in pinned] + [z3.BitVec(f"tot{len(pinned)}_{m}_c{i}", 32) for i in range(m)]
                pre = [scalar(c) for c in ch[1 + len(pinned):]]
                if pinned:
                    # after a pinned escape start only the characters that the escape reader distinguishes matter
                    pre += [z3.Or(strlex_is_hex(c), c == 125, c == q, c == 103) for c in ch[1 + len(pinned):]]
                m_total = len(ch)
                I = Interp(funcs, unwind=3 * m_total + 8, timeout_s=600 if tier == "quick" else 2400, max_paths=200000)
                I.stub_patterns = pats
                I.lazy = False
                I.unwind_exits = True
                st = State()
                st.pc = list(pre)
                st.heap.append(SAgg("closure", "", {0: SInt(bv(q), 32, False), 1: SBool(z3.BoolVal(True))}))
                st.heap.append(SAgg("inputref", "", {0: Txt(ch, z3.BitVecVal(len(ch), 64), "input"), "pos": 0}))
                st.frames.append(I.new_frame(name, [SRef(-1, ("cell", 0)), SRef(-1, ("cell", 1))]))
                I.deadline = time.time() + I.timeout_s
                I.exits = []
                I.explore(st)
                last = I
                nexits += len(I.exits)
                for e in I.exits:
                    if e.kind == "return":
                        continue
                    v, model, dt = kernels.check(e.pc, z3.BoolVal(True))
                    R.q(v, dt)
                    if v != "sat":
                        continue
                    npanic += 1
                    src = "".join(chr(model.eval(c, model_completion=True).as_long()) for c in ch)
                    r = drv.req(_timeout=10, op="lex", prql=src)
                    if e.kind == "unwind":
                        if r.get("hang"):
                            if ("hang", pinned) not in seen_hang:
                                seen_hang.add(("hang", pinned))
                                R.violation({"engine": "mirsym", "kernel": "K-strlex-total", "kind": "hang"},
                                            f"K-strlex-total: lexing the {len(src)}-character source text {src!r} does not terminate (no answer within 10 s; the reader loops: {e.msg})",
                                            {"prql": src, "detail": e.msg, "expect_lex_terminates": True})
                        else:
                            R.engine_error(f"K-strlex-total: unwinding bound too small ({e.msg}) - the real lexer terminates on {src!r}")
                        continue
                    if r.get("crash") or r.get("panic"):
                        R.violation({"engine": "mirsym", "kernel": "K-strlex-total", "kind": "panic"},
                                    f"K-strlex-total: lexing the source text {src!r} panics ({e.msg})", {"prql": src, "detail": str(r)[:300]})
                    else:
                        R.engine_error(f"ENCODER-MISMATCH K-strlex-total: the model source {src!r} ({e.kind} {e.msg}) does not panic in the real lexer")
    except Inconclusive as e:
        R.engine_error(f"K-strlex-total: {e}")
        return
    if last is not None:
        _account(R, last, "K-strlex-total")
    R.cov["states"] = R.cov.get("states", 0) + nexits
    R.q("unsat", 0.0) if npanic == 0 else None
    R.sample({"kernel": "K-strlex-total", "exits": nexits, "panic_exits": npanic, "property": f"for every input of <= {M} characters that starts with a quote, the string reader "
              "(multi_quoted_string's closure + parse_escape_sequence) returns Ok or Err: no panic exit is reachable and no loop exceeds 3*len+8 iterations", "wall_s": round(time.time() - t0, 2)})
    R.cov.setdefault("kernel_bounds", {})["K-strlex-total"] = f"inputs of 1..{M} characters, first one a quote, all others arbitrary Unicode scalars; end of input after the last character"
    core.log(f"[K-strlex-total] {nexits} exits, {npanic} panic exits in {time.time()-t0:.1f}s")
