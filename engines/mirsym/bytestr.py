"""K-sstr: byte-level model of Rust `str` for the one place where prqlc slices user text by byte offsets
(sql/gen_query.rs::translate_query_sstring: the `SELECT` prefix test of an s-string used as a relation).

A `str` is a z3 sequence of 8-bit vectors constrained to be well-formed UTF-8 (exact: lead/continuation structure,
no overlong forms, no surrogates, <= U+10FFFF) of at most L bytes. `str::get(range)` answers None off a character
boundary, indexing (`&s[..n]`, `&s[a..b]`, `&s[a..]`, `split_at`) panics there - as in core::str.
`trim` is over-approximated: ANY sub-slice on character boundaries (a superset of what trimming can return; the same
sub-slice for the same receiver). `Regex::is_match` is an unconstrained boolean. Everything after the prefix logic
(building the sqlparser AST) is opaque.
"""
import os
import time

import z3

from sym import *  # noqa
import models

BYTE = z3.BitVecSort(8)
SEQ = z3.SeqSort(BYTE)


class BStr:
    """value of type str / String: t is a z3 Seq(BitVec 8) term"""
    __slots__ = ("t",)

    def __init__(self, t):
        self.t = t

    def __repr__(self):
        return f"bstr({self.t})"


def at(s, i):
    """byte i of s as BitVec8 (i: python int or z3 Int)"""
    return s[i]


def is_cont(b):
    return (b & 0xC0) == 0x80


def boundary(s, i):
    """str::is_char_boundary(i), i a z3 Int"""
    n = z3.Length(s)
    return z3.Or(i == 0, i == n, z3.And(i > 0, i < n, z3.Not(is_cont(at(s, i)))))


def utf8_valid(s, L):
    """exact well-formedness for len(s) <= L (unrolled over positions)"""
    n = z3.Length(s)
    cs = [n <= L]
    b = [at(s, i) for i in range(L + 4)]
    for i in range(L):
        inb = i < n
        lead = z3.Not(is_cont(b[i]))
        w1 = z3.ULT(b[i], 0x80)
        w2 = z3.And(z3.UGE(b[i], 0xC2), z3.ULE(b[i], 0xDF))
        w3 = z3.And(z3.UGE(b[i], 0xE0), z3.ULE(b[i], 0xEF))
        w4 = z3.And(z3.UGE(b[i], 0xF0), z3.ULE(b[i], 0xF4))

        def conts(k):
            return z3.And(i + k < n + 0, *[is_cont(b[i + j]) for j in range(1, k + 1)]) if k else z3.BoolVal(True)

        def next_is_lead(k):
            return z3.Or(i + k + 1 >= n, z3.Not(is_cont(b[i + k + 1])))
        ok = z3.Or(z3.And(w1, next_is_lead(0)),
                   z3.And(w2, conts(1), next_is_lead(1)),
                   z3.And(w3, conts(2), next_is_lead(2),
                          z3.Implies(b[i] == 0xE0, z3.UGE(b[i + 1], 0xA0)), z3.Implies(b[i] == 0xED, z3.ULE(b[i + 1], 0x9F))),
                   z3.And(w4, conts(3), next_is_lead(3),
                          z3.Implies(b[i] == 0xF0, z3.UGE(b[i + 1], 0x90)), z3.Implies(b[i] == 0xF4, z3.ULE(b[i + 1], 0x8F))))
        cs.append(z3.Implies(z3.And(inb, lead), ok))
    cs.append(z3.Implies(n > 0, z3.Not(is_cont(b[0]))))
    return cs


def u64(t_int):
    return z3.Int2BV(t_int, 64)


def as_int(v):
    """SInt -> z3 Int (unsigned)"""
    return z3.BV2Int(v.t, False)


_trim_cache = {}
_ctr = [0]


def fresh(tag, sort=None):
    _ctr[0] += 1
    return z3.Const(f"{tag}!{_ctr[0]}", sort) if sort is not None else z3.Int(f"{tag}!{_ctr[0]}")


def bstr_arg(I, st, v):
    v = models.deref(I, st, v)
    if isinstance(v, BStr):
        return v
    if isinstance(v, SStr) and isinstance(v.v, str):
        data = v.v.encode("utf-8")
        t = z3.Empty(SEQ)
        for by in data:
            t = z3.Concat(t, z3.Unit(z3.BitVecVal(by, 8)))
        return BStr(t if data else z3.Empty(SEQ))
    raise Inconclusive(f"byte-string model: argument {v}")


def m_trim(I, st, a):
    s = bstr_arg(I, st, a[0])
    key = s.t.get_id()
    if key not in _trim_cache:
        i, n = fresh("trim_from"), fresh("trim_len")
        _trim_cache[key] = (i, n)
    i, n = _trim_cache[key]
    cond = z3.And(i >= 0, n >= 0, i + n <= z3.Length(s.t), boundary(s.t, i), boundary(s.t, i + n))
    return [(cond, BStr(z3.SubSeq(s.t, i, n)))]


def m_get_range(I, st, a):
    s = bstr_arg(I, st, a[0])
    r = models.deref(I, st, a[1])
    lo, hi = as_int(r.f["start"] if "start" in r.f else r.f[0]), as_int(r.f["end"] if "end" in r.f else r.f[1])
    ok = z3.And(lo <= hi, hi <= z3.Length(s.t), boundary(s.t, lo), boundary(s.t, hi))
    return SEnum("Option", z3.If(ok, z3.BitVecVal(1, 64), z3.BitVecVal(0, 64)), {1: {0: BStr(z3.SubSeq(s.t, lo, hi - lo))}})


def m_unwrap_or_default(I, st, a):
    o = a[0]
    some = o.disc == 1 if not isinstance(o.disc, int) else z3.BoolVal(o.disc == 1)
    pay = o.pay.get(1, {}).get(0)
    if pay is None:
        return BStr(z3.Empty(SEQ))
    return BStr(z3.If(some, pay.t, z3.Empty(SEQ)))


def m_strip_prefix(I, st, a):
    s, p = bstr_arg(I, st, a[0]), bstr_arg(I, st, a[1])
    has = z3.PrefixOf(p.t, s.t)
    rest = z3.SubSeq(s.t, z3.Length(p.t), z3.Length(s.t) - z3.Length(p.t))
    return SEnum("Option", z3.If(has, z3.BitVecVal(1, 64), z3.BitVecVal(0, 64)), {1: {0: BStr(rest)}})


def m_len(I, st, a):
    s = bstr_arg(I, st, a[0])
    return SInt(u64(z3.Length(s.t)), 64, False)


def m_is_empty(I, st, a):
    s = bstr_arg(I, st, a[0])
    return SBool(z3.Length(s.t) == 0)


def m_is_char_boundary(I, st, a):
    s = bstr_arg(I, st, a[0])
    return SBool(boundary(s.t, as_int(a[1])))


def _index(kind):
    def f(I, st, a):
        s = bstr_arg(I, st, a[0])
        r = models.deref(I, st, a[1])
        n = z3.Length(s.t)
        g = lambda *names: next(r.f[k] for k in names if k in r.f)
        if kind == "to":
            lo, hi = z3.IntVal(0), as_int(g("end", 0))
        elif kind == "from":
            lo, hi = as_int(g("start", 0)), n
        else:
            lo, hi = as_int(g("start", 0)), as_int(g("end", 1))
        ok = z3.And(lo <= hi, hi <= n, boundary(s.t, lo), boundary(s.t, hi))
        return [(ok, BStr(z3.SubSeq(s.t, lo, hi - lo))), (z3.Not(ok), ("panic", "byte index is out of bounds or not a char boundary"))]
    return f


def m_split_at(I, st, a):
    s = bstr_arg(I, st, a[0])
    mid = as_int(a[1])
    ok = z3.And(mid <= z3.Length(s.t), boundary(s.t, mid))
    val = SAgg("tuple", "", {0: BStr(z3.SubSeq(s.t, 0, mid)), 1: BStr(z3.SubSeq(s.t, mid, z3.Length(s.t) - mid))})
    return [(ok, val), (z3.Not(ok), ("panic", "failed to slice string"))]


def m_starts_with(I, st, a):
    s, p = bstr_arg(I, st, a[0]), bstr_arg(I, st, a[1])
    return SBool(z3.PrefixOf(p.t, s.t))


def stubs(s_term, match_var):
    def translate_sstring(I, st, a):
        return SEnum("Result", 0, {0: {0: BStr(s_term)}})

    def regex_new(I, st, a):
        return SEnum("Result", 0, {0: {0: SOpaque("regex", False)}})

    def is_match(I, st, a):
        return SBool(match_var)
    idx = {}
    for recv in ("str", "std::string::String"):
        for tr in ("Index", "std::ops::Index"):
            for kind, names in (("to", ("RangeTo<usize>", "std::ops::RangeTo<usize>")), ("from", ("RangeFrom<usize>", "std::ops::RangeFrom<usize>")),
                                ("range", ("Range<usize>", "std::ops::Range<usize>"))):
                for nm in names:
                    idx[f"<{recv} as {tr}<{nm}>>::index"] = _index(kind)
    return {
        **idx,
        "gen_expr::translate_sstring": translate_sstring,
        "regex::Regex::new": regex_new,
        "regex::Regex::is_match": is_match,
        "core::str::<impl str>::trim": m_trim,
        "core::str::<impl str>::trim_start": m_trim,
        "core::str::<impl str>::trim_end": m_trim,
        "core::str::<impl str>::get::<std::ops::Range<usize>>": m_get_range,
        "std::option::Option::<&str>::unwrap_or_default": m_unwrap_or_default,
        "core::str::<impl str>::strip_prefix::<&str>": m_strip_prefix,
        "core::str::<impl str>::starts_with::<&str>": m_starts_with,
        "core::str::<impl str>::len": m_len,
        "std::string::String::len": m_len,
        "core::str::<impl str>::is_empty": m_is_empty,
        "core::str::<impl str>::is_char_boundary": m_is_char_boundary,
        "core::str::<impl str>::split_at": m_split_at,
    }


def model_bytes(model, s_term, L):
    n = model.eval(z3.Length(s_term), model_completion=True).as_long()
    return bytes(model.eval(s_term[i], model_completion=True).as_long() for i in range(n))
