"""K-quote: lexer::lr::quote_string (how the formatter and every Display of a string literal choose quotes), executed from the
prqlc-parser MIR over a symbolic string of bounded length: L symbolic characters (32-bit code points) and a symbolic length.

Models local to this kernel (everything else is executed from MIR, including both closures):
  str::contains/starts_with/ends_with::<char>, str::len, str::split::<closure> + Iterator::map + Iterator::max (the closure bodies
  are evaluated by the interpreter on every position's character; the maximum is taken over the pieces the split produces),
  usize::div_ceil, <char as ToString>::to_string, str::repeat (kept symbolic: character and count),
  fmt::rt::Argument::new_display / fmt::Arguments::new / fmt::format (the compact template bytes are decoded: literal pieces
  and positional arguments only; anything else is inconclusive).
"""
import z3

from sym import *  # noqa
import models


class AStr:
    """string as an array of symbolic characters with a symbolic length"""
    __slots__ = ("ch", "n")

    def __init__(self, ch, n):
        self.ch, self.n = ch, n

    def __repr__(self):
        return f"astr[{len(self.ch)}]"


class Rep:
    """`c` repeated `n` times (n a 64-bit term); Rep(c, 1) is what char::to_string returns"""
    __slots__ = ("c", "n")

    def __init__(self, c, n):
        self.c, self.n = c, n

    def __repr__(self):
        return f"rep({self.c}, {self.n})"


def symbolic_text(L):
    ch = [z3.BitVec(f"text_ch{i}", 32) for i in range(L)]
    n = z3.BitVec("text_len", 64)
    dom = [z3.ULE(n, L)] + [z3.And(z3.ULE(c, 0x10FFFF), z3.Or(z3.ULT(c, 0xD800), z3.UGT(c, 0xDFFF))) for c in ch]
    return AStr(ch, n), dom


def stubs(L):
    def astr(I, st, v):
        v = models.deref(I, st, v)
        if isinstance(v, AStr):
            return v
        raise Inconclusive(f"K-quote: string operand {v}")

    def charv(I, st, v):
        v = models.deref(I, st, v)
        if isinstance(v, SInt):
            return v.t
        raise Inconclusive(f"K-quote: char pattern {v}")

    def m_contains(I, st, a):
        s, c = astr(I, st, a[0]), charv(I, st, a[1])
        return SBool(z3.Or(*[z3.And(z3.ULT(z3.BitVecVal(i, 64), s.n), s.ch[i] == c) for i in range(L)]))

    def m_starts(I, st, a):
        s, c = astr(I, st, a[0]), charv(I, st, a[1])
        return SBool(z3.And(s.n != 0, s.ch[0] == c))

    def m_ends(I, st, a):
        s, c = astr(I, st, a[0]), charv(I, st, a[1])
        return SBool(z3.Or(*[z3.And(s.n == i + 1, s.ch[i] == c) for i in range(L)]))

    def m_split(I, st, a):
        return SAgg("split", "", {0: astr(I, st, a[0]), 1: a[1]})

    def m_map(I, st, a):
        return SAgg("map", "", {0: a[0], 1: a[1]})

    def m_len(I, st, a):
        v = models.deref(I, st, a[0])
        if isinstance(v, SAgg) and v.kind == "piece":
            return v.f[0]
        if isinstance(v, AStr):
            return SInt(v.n, 64, False)
        raise Inconclusive(f"K-quote: len of {v}")

    def call_closure(I, st, clo, args):
        """evaluate a (straight-line) closure body on the given arguments; captured references are copied into the sub-state"""
        import time as _t
        clo = models.deref(I, st, clo)
        body = I.closure_body(clo.name)
        if body is None:
            raise Inconclusive(f"K-quote: closure body of {clo.name}")
        sub = Interp(I.funcs, I.stubs, I.hints, I.unwind)
        sub.stub_patterns = getattr(I, "stub_patterns", ())
        sub.lazy = getattr(I, "lazy", True)
        s2 = State()
        f2 = {}
        for k, v in clo.f.items():
            if isinstance(v, SRef):
                s2.heap.append(models.deref(I, st, v))
                f2[k] = SRef(-1, ("cell", len(s2.heap) - 1))
            else:
                f2[k] = v
        s2.heap.append(SAgg(clo.kind, clo.name, f2))
        cref = SRef(-1, ("cell", len(s2.heap) - 1))
        s2.frames.append(sub.new_frame(body, [cref] + args))
        sub.deadline = _t.time() + 30
        sub.exits = []
        sub.explore(s2)
        rets = [e for e in sub.exits if e.kind == "return"]
        if len(sub.exits) != 1 or len(rets) != 1 or any(not z3.is_true(c) for c in rets[0].pc):
            raise Inconclusive(f"K-quote: closure {clo.name} is not straight-line")
        I.stats["bodies"] |= sub.stats["bodies"]
        return rets[0].value

    def m_max(I, st, a):
        m = a[0]
        if not (isinstance(m, SAgg) and m.kind == "map" and isinstance(m.f[0], SAgg) and m.f[0].kind == "split"):
            raise Inconclusive(f"K-quote: max over {m}")
        sp, f2 = m.f[0], m.f[1]
        s = sp.f[0]
        inb = [z3.ULT(z3.BitVecVal(i, 64), s.n) for i in range(L)]
        # separator flags from the real closure, position by position
        sep = [call_closure(I, st, sp.f[1], [SInt(s.ch[i], 32, False)]).t for i in range(L)]
        run, prev = [], z3.BitVecVal(0, 64)
        for i in range(L):
            cur = z3.If(sep[i], z3.BitVecVal(0, 64), prev + 1)
            run.append(cur)
            prev = cur
        F = z3.BoolVal(False)
        # an empty piece exists when the string is empty, starts or ends with a separator, or has two adjacent separators
        has_empty = z3.Or(s.n == 0, *[z3.And(inb[i], sep[i], z3.Or(z3.BoolVal(i == 0), s.n == i + 1, sep[i - 1] if i else F)) for i in range(L)])
        empty_val = call_closure(I, st, f2, [SAgg("piece", "", {0: SInt(z3.BitVecVal(0, 64), 64, False)})]).t
        mx = z3.If(has_empty, empty_val, z3.BitVecVal(0, 64))
        for i in range(L):
            is_end = z3.And(inb[i], z3.Not(sep[i]), z3.Or(s.n == i + 1, sep[i + 1] if i + 1 < L else z3.BoolVal(True)))
            v = call_closure(I, st, f2, [SAgg("piece", "", {0: SInt(run[i], 64, False)})]).t
            mx = z3.If(z3.And(is_end, z3.UGT(v, mx)), v, mx)
        return SEnum("Option", 1, {1: {0: SInt(mx, 64, False)}})

    def m_div_ceil(I, st, a):
        x, d = a
        q = z3.UDiv(x.t, d.t)
        return [(d.t != 0, SInt(z3.If(z3.URem(x.t, d.t) == 0, q, q + 1), x.bits, False)), (d.t == 0, ("panic", "attempt to divide by zero"))]

    def m_char_to_string(I, st, a):
        return Rep(charv(I, st, a[0]), z3.BitVecVal(1, 64))

    def m_repeat(I, st, a):
        u = models.deref(I, st, a[0])
        if not isinstance(u, Rep) or not z3.is_true(z3.simplify(u.n == 1)):
            raise Inconclusive(f"K-quote: repeat of {u}")
        return Rep(u.c, a[1].t)

    def m_new_display(I, st, a):
        return SAgg("fmtarg", "", {0: models.deref(I, st, a[0])})

    def m_args_new(I, st, a):
        return SAgg("fmtargs", "", {0: models.deref(I, st, a[0]), 1: models.deref(I, st, a[1])})

    def m_format(I, st, a):
        fa = a[0]
        if not (isinstance(fa, SAgg) and fa.kind == "fmtargs"):
            raise Inconclusive(f"K-quote: format of {fa}")
        tpl, args = fa.f[0], fa.f[1]
        if not (isinstance(tpl, SAgg) and tpl.kind == "bytes") or not isinstance(args, SAgg):
            raise Inconclusive(f"K-quote: format template {tpl} args {args}")
        b = tpl.f[0]
        argv = [args.f[k] for k in sorted(k for k in args.f if isinstance(k, int))]
        parts, i, nxt = [], 0, 0
        while i < len(b):
            x = b[i]
            if x == 0:
                break
            if x < 0x80:
                parts.append(("lit", b[i + 1:i + 1 + x].decode("utf-8")))
                i += 1 + x
            elif x == 0xC0:
                parts.append(("arg", nxt))
                nxt += 1
                i += 1
            elif x == 0xC8:
                parts.append(("arg", b[i + 1] | (b[i + 2] << 8)))
                i += 3
            else:
                raise Inconclusive(f"K-quote: fmt template byte {x:#x} in {b!r}")
        desc = []
        for kind, v in parts:
            if kind == "lit":
                desc.append(("lit", v))
            else:
                if v >= len(argv) or not (isinstance(argv[v], SAgg) and argv[v].kind == "fmtarg"):
                    raise Inconclusive(f"K-quote: fmt argument {v}")
                desc.append(("arg", models.deref(I, st, argv[v].f[0])))
        st.trace.append(("format", desc))
        return SOpaque("formatted", taint=False)
    return {
        "core::str::<impl str>::contains::<char>": m_contains,
        "core::str::<impl str>::starts_with::<char>": m_starts,
        "core::str::<impl str>::ends_with::<char>": m_ends,
        "core::str::<impl str>::len": m_len,
        "core::num::<impl usize>::div_ceil": m_div_ceil,
        "<char as ToString>::to_string": m_char_to_string,
        "std::str::<impl str>::repeat": m_repeat,
        "alloc::str::<impl str>::repeat": m_repeat,
        "std::fmt::format": m_format, "alloc::fmt::format": m_format,
        "must_use::<String>": lambda I, st, a: a[0],
        "<String as Deref>::deref": lambda I, st, a: a[0],
        "__split__": m_split, "__map__": m_map, "__max__": m_max, "__new_display__": m_new_display, "__args_new__": m_args_new,
    }
