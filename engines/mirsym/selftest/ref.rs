// prints the native results of the std integer functions that models.py models, for all i8 / u8 arguments
fn o<T: std::fmt::Display>(x: Option<T>) -> String { match x { Some(v) => format!("S{}", v), None => "N".to_string() } }
fn main() {
    for x in i8::MIN..=i8::MAX {
        println!("u1 i8 {} wrapping_neg={} signum={} checked_abs={} saturating_neg={} saturating_abs={} wrapping_abs={} checked_neg={} unsigned_abs={} is_negative={} is_positive={}",
            x, x.wrapping_neg(), x.signum(), o(x.checked_abs()), x.saturating_neg(), x.saturating_abs(), x.wrapping_abs(), o(x.checked_neg()), x.unsigned_abs(), x.is_negative() as u8, x.is_positive() as u8);
        for y in i8::MIN..=i8::MAX {
            let (a, ao) = x.overflowing_add(y); let (s, so) = x.overflowing_sub(y); let (m, mo) = x.overflowing_mul(y);
            println!("b2 i8 {} {} checked_div={} checked_rem={} saturating_mul={} oadd={},{} osub={},{} omul={},{} abs_diff={} saturating_add={} saturating_sub={} checked_add={} checked_sub={} checked_mul={} wrapping_add={} wrapping_sub={} wrapping_mul={} min={} max={}",
                x, y, o(x.checked_div(y)), o(x.checked_rem(y)), x.saturating_mul(y), a, ao as u8, s, so as u8, m, mo as u8, x.abs_diff(y),
                x.saturating_add(y), x.saturating_sub(y), o(x.checked_add(y)), o(x.checked_sub(y)), o(x.checked_mul(y)), x.wrapping_add(y), x.wrapping_sub(y), x.wrapping_mul(y), x.min(y), x.max(y));
        }
    }
    for x in u8::MIN..=u8::MAX {
        for y in u8::MIN..=u8::MAX {
            let (a, ao) = x.overflowing_add(y); let (s, so) = x.overflowing_sub(y); let (m, mo) = x.overflowing_mul(y);
            println!("b2 u8 {} {} checked_div={} checked_rem={} saturating_mul={} oadd={},{} osub={},{} omul={},{} abs_diff={} saturating_add={} saturating_sub={} checked_add={} checked_sub={} checked_mul={} wrapping_add={} wrapping_sub={} wrapping_mul={} min={} max={}",
                x, y, o(x.checked_div(y)), o(x.checked_rem(y)), x.saturating_mul(y), a, ao as u8, s, so as u8, m, mo as u8, x.abs_diff(y),
                x.saturating_add(y), x.saturating_sub(y), o(x.checked_add(y)), o(x.checked_sub(y)), o(x.checked_mul(y)), x.wrapping_add(y), x.wrapping_sub(y), x.wrapping_mul(y), x.min(y), x.max(y));
        }
    }
}
