"""Self-test of the integer models in models.py against the native std functions, exhaustively over i8/u8
(the models are width-generic). usage: python3-vt run.py   (compiles ref.rs with rustc into /verif/.build/selftest)"""
import os, re, subprocess, sys
HERE = os.path.dirname(os.path.abspath(__file__))
sys.path.insert(0, os.path.join(HERE, ".."))
import z3
from sym import *  # noqa
import models

out = "/verif/.build/selftest"
os.makedirs(out, exist_ok=True)
subprocess.run(["rustc", "-O", "-o", f"{out}/ref", os.path.join(HERE, "ref.rs")], check=True)
lines = subprocess.run([f"{out}/ref"], capture_output=True, text=True, check=True).stdout.splitlines()


def val(v, signed):
    t = z3.simplify(v.t)
    n = t.as_long()
    if signed and n >= 1 << (v.bits - 1):
        n -= 1 << v.bits
    return n


def opt(v, signed):
    d = z3.simplify(v.disc) if not isinstance(v.disc, int) else v.disc
    d = d.as_long() if not isinstance(d, int) else d
    return "N" if d == 0 else "S" + str(val(v.pay[1][0], signed))


def model(name):
    return models.lookup(name)


def call(name, args):
    r = model(name)(_I, None, args)
    if isinstance(r, list):       # alternatives: pick the one whose condition simplifies to true
        for c, v in r:
            if z3.is_true(z3.simplify(c)):
                return v
        raise AssertionError(f"no alternative for {name}")
    return r


_I = Interp({})
bad = 0
n = 0
for ln in lines:
    f = ln.split()
    kind, ty = f[0], f[1]
    signed = ty == "i8"
    pre = "core::num::<impl %s>::" % ty
    mk = lambda x: SInt(z3.BitVecVal(int(x), 8), 8, signed)
    kv = dict(p.split("=") for p in f[(3 if kind == "u1" else 4):])
    if kind == "u1":
        x = mk(f[2])
        got = {"wrapping_neg": val(call(pre + "wrapping_neg", [x]), True), "signum": val(call(pre + "signum", [x]), True),
               "checked_abs": opt(call(pre + "checked_abs", [x]), True), "saturating_neg": val(call(pre + "saturating_neg", [x]), True),
               "saturating_abs": val(call(pre + "saturating_abs", [x]), True), "wrapping_abs": val(call(pre + "wrapping_abs", [x]), True),
               "checked_neg": opt(call(pre + "checked_neg", [x]), True), "unsigned_abs": val(call(pre + "unsigned_abs", [x]), False),
               "is_negative": int(z3.is_true(z3.simplify(call(pre + "is_negative", [x]).t))), "is_positive": int(z3.is_true(z3.simplify(call(pre + "is_positive", [x]).t)))}
    else:
        x, y = mk(f[2]), mk(f[3])
        def ov(op):
            r = call(pre + "overflowing_" + op, [x, y])
            return f"{val(r.f[0], signed)},{int(z3.is_true(z3.simplify(r.f[1].t)))}"
        got = {"checked_div": opt(call(pre + "checked_div", [x, y]), signed), "checked_rem": opt(call(pre + "checked_rem", [x, y]), signed),
               "saturating_mul": val(call(pre + "saturating_mul", [x, y]), signed), "oadd": ov("add"), "osub": ov("sub"), "omul": ov("mul"),
               "abs_diff": val(call(pre + "abs_diff", [x, y]), False), "saturating_add": val(call(pre + "saturating_add", [x, y]), signed),
               "saturating_sub": val(call(pre + "saturating_sub", [x, y]), signed), "checked_add": opt(call(pre + "checked_add", [x, y]), signed),
               "checked_sub": opt(call(pre + "checked_sub", [x, y]), signed), "checked_mul": opt(call(pre + "checked_mul", [x, y]), signed),
               "wrapping_add": val(call(pre + "wrapping_add", [x, y]), signed), "wrapping_sub": val(call(pre + "wrapping_sub", [x, y]), signed),
               "wrapping_mul": val(call(pre + "wrapping_mul", [x, y]), signed),
               "min": val(call(f"<{ty} as Ord>::min", [x, y]), signed), "max": val(call(f"<{ty} as Ord>::max", [x, y]), signed)}
    for k, v in got.items():
        n += 1
        if str(v) != kv[k]:
            bad += 1
            if bad < 20:
                print("MISMATCH", ln.split()[:4], k, "model", v, "native", kv[k])
print(f"{n} comparisons, {bad} mismatches")
sys.exit(1 if bad else 0)
