"""K-litfmt: printing a string literal and lexing the printed text gives the string back (C14: literal printing; C08: one value per spelling).

Both halves are the real code, executed from the prqlc-parser MIR and composed symbolically:
  printer  `<Literal as Display>::fmt` (arm Literal::String) with `escape_all_except_quotes`, the `at_an_end` closure, the escape
           branch (`s.replace('"', "\\\\\\"")`) and `quote_string` (both closures of its split/map/max chain);
  reader   `multi_quoted_string`'s custom closure and `parse_escape_sequence` (see strlex.py), run on the characters the printer wrote,
           with the quote character the lexer's `choice` would pick for that first character.
The text has n = 0..L characters, every one an arbitrary Unicode scalar (symbolic). Strings are lists of character terms of
concrete length on every path: `char::escape_default` forks into its nine output shapes (\\t \\r \\n \\\\ \\' \\" printable, \\u{h} with
1..6 digits), `str::repeat` forks on the symbolic delimiter count.
Decided by z3 per composed path: the reader returns Ok(chars) with chars == text and consumes the printed text to its last character.

Models local to this kernel (in addition to strlex's cursor models): String::{new,push} / str::chars / Chars::next over lists,
char::escape_default + String::extend (core's table, see escape_default_alts), starts_with/ends_with/contains::<char>,
str::replace::<char> with a constant replacement, str::len, usize::div_ceil, char::to_string, str::repeat, format! and write! with
the compact template decoded, quote_string's split/map/max via the K-quote model (run lengths computed from the real closures).
"""
import re
import time

import z3

from sym import *  # noqa
import models
import quote as kq
import sqlstr
import strlex


class LStr:
    """string of concrete length: list of 32-bit character terms"""
    __slots__ = ("ch",)

    def __init__(self, ch):
        self.ch = list(ch)

    def __repr__(self):
        return f"lstr[{len(self.ch)}]"


NOT_A_QUOTE = {}         # id -> term, for terms known not to be quote characters (hex digits of \\u{..}); the terms are kept alive so that z3 cannot reuse their ids


def bv(c):
    return z3.BitVecVal(c if isinstance(c, int) else ord(c), 32)


def hexchar(v):
    t = z3.If(z3.ULT(v, 10), v + 48, v + 87)
    t = z3.simplify(t)
    NOT_A_QUOTE[t.get_id()] = t
    return t


def escape_default_alts(c):
    """core::char::escape_default: (condition, characters)"""
    alts = [(c == 9, [bv("\\"), bv("t")]), (c == 13, [bv("\\"), bv("r")]), (c == 10, [bv("\\"), bv("n")]),
            (c == 92, [bv("\\"), bv("\\")]), (c == 39, [bv("\\"), bv("'")]), (c == 34, [bv("\\"), bv('"')]),
            (z3.And(z3.UGE(c, 0x20), z3.ULE(c, 0x7E), c != 92, c != 39, c != 34), [c])]
    other = z3.And(z3.Or(z3.ULT(c, 0x20), z3.UGT(c, 0x7E)), c != 9, c != 13, c != 10)
    for d in range(1, 7):
        lo, hi = (0 if d == 1 else 16 ** (d - 1)), 16 ** d
        cond = z3.And(other, z3.UGE(c, lo), z3.ULT(c, hi))
        digs = [hexchar(z3.LShR(c, 4 * (d - 1 - i)) & 0xF) for i in range(d)]
        alts.append((cond, [bv("\\"), bv("u"), bv("{")] + digs + [bv("}")]))
    return alts


def escape_debug_alts(c):
    """core::char::escape_debug, over-approximated where it consults Unicode tables: a non-ASCII character is written either raw or
    as \\u{..} (both alternatives are explored); ASCII is exact (NUL is written \\0)."""
    alts = [(c == 0, [bv("\\"), bv("0")]), (c == 9, [bv("\\"), bv("t")]), (c == 13, [bv("\\"), bv("r")]), (c == 10, [bv("\\"), bv("n")]),
            (c == 92, [bv("\\"), bv("\\")]), (c == 39, [bv("\\"), bv("'")]), (c == 34, [bv("\\"), bv('"')]),
            (z3.And(z3.UGE(c, 0x20), z3.ULE(c, 0x7E), c != 92, c != 39, c != 34), [c]),
            (z3.UGT(c, 0x7F), [c])]
    other = z3.And(z3.Or(z3.And(z3.ULT(c, 0x20), c != 0), z3.UGE(c, 0x7F)), c != 9, c != 13, c != 10)
    for d in range(1, 7):
        lo, hi = (0 if d == 1 else 16 ** (d - 1)), 16 ** d
        cond = z3.And(other, z3.UGE(c, lo), z3.ULT(c, hi))
        digs = [hexchar(z3.LShR(c, 4 * (d - 1 - i)) & 0xF) for i in range(d)]
        alts.append((cond, [bv("\\"), bv("u"), bv("{")] + digs + [bv("}")]))
    return alts


def lstr(I, st, v):
    v = models.deref(I, st, v)
    if isinstance(v, LStr):
        return v
    if isinstance(v, SVec):
        return LStr([x.t for x in v.items])
    if isinstance(v, SStr) and isinstance(v.v, str):
        return LStr([bv(c) for c in v.v])
    raise Inconclusive(f"K-litfmt: string operand {v}")


def stubs():
    def m_string_new(I, st, a):
        return LStr([])

    def m_string_push(I, st, a):
        r, c = a
        s = lstr(I, st, r)
        I.write(st, r.depth, r.place, LStr(s.ch + [c.t]))
        return SUnit()

    def m_chars(I, st, a):
        return SAgg("cursor", "Chars", {0: lstr(I, st, a[0]), "pos": 0})

    def m_chars_next(I, st, a):
        r = a[0]
        c = models.deref(I, st, r)
        s, i = c.f[0], c.f["pos"]
        if i >= len(s.ch):
            return none()
        nf = dict(c.f)
        nf["pos"] = i + 1
        I.write(st, r.depth, r.place, SAgg("cursor", "Chars", nf))
        return some(SInt(s.ch[i], 32, False))

    def m_escape_default(I, st, a):
        c = a[0].t
        return [(cond, SAgg("escaped", "", {0: LStr(chars)})) for cond, chars in escape_default_alts(c)]

    def m_escape_debug(I, st, a):
        c = a[0].t
        return [(cond, SAgg("escaped", "", {0: LStr(chars)})) for cond, chars in escape_debug_alts(c)]

    def m_extend(I, st, a):
        r, e = a
        s = lstr(I, st, r)
        e = models.deref(I, st, e)
        if not (isinstance(e, SAgg) and e.kind == "escaped"):
            raise Inconclusive(f"K-litfmt: extend with {e}")
        I.write(st, r.depth, r.place, LStr(s.ch + e.f[0].ch))
        return SUnit()

    def charv(I, st, v):
        v = models.deref(I, st, v)
        if isinstance(v, SInt):
            return v.t
        raise Inconclusive(f"K-litfmt: char pattern {v}")

    def m_starts(I, st, a):
        s, c = lstr(I, st, a[0]), charv(I, st, a[1])
        return SBool(s.ch[0] == c if s.ch else z3.BoolVal(False))

    def m_ends(I, st, a):
        s, c = lstr(I, st, a[0]), charv(I, st, a[1])
        return SBool(s.ch[-1] == c if s.ch else z3.BoolVal(False))

    def m_contains(I, st, a):
        s, c = lstr(I, st, a[0]), charv(I, st, a[1])
        return SBool(z3.Or(*[x == c for x in s.ch]) if s.ch else z3.BoolVal(False))

    def m_len(I, st, a):
        v = models.deref(I, st, a[0])
        if isinstance(v, SAgg) and v.kind == "piece":
            return v.f[0]
        s = lstr(I, st, a[0])
        # byte length: sum of UTF-8 widths
        t = z3.BitVecVal(0, 64)
        for c in s.ch:
            t = t + sqlstr.width(c)
        return SInt(z3.simplify(t), 64, False)

    def m_replace(I, st, a):
        s, pat, rep = lstr(I, st, a[0]), charv(I, st, a[1]), lstr(I, st, a[2])
        alts = []

        def rec(i, acc, conds):
            if i == len(s.ch):
                alts.append((z3.And(*conds) if conds else z3.BoolVal(True), LStr(acc)))
                return
            c = s.ch[i]
            eq = z3.simplify(c == pat)
            if z3.is_false(eq) or c.get_id() in NOT_A_QUOTE:
                rec(i + 1, acc + [c], conds)
            elif z3.is_true(eq):
                rec(i + 1, acc + rep.ch, conds)
            else:
                rec(i + 1, acc + rep.ch, conds + [c == pat])
                rec(i + 1, acc + [c], conds + [c != pat])
        rec(0, [], [])
        if len(alts) > 4096:
            raise Inconclusive("K-litfmt: replace forks too often")
        return alts

    def as_astr(s):
        return kq.AStr(s.ch, z3.BitVecVal(len(s.ch), 64))

    def m_split(I, st, a):
        return SAgg("split", "", {0: as_astr(lstr(I, st, a[0])), 1: a[1]})

    def m_map(I, st, a):
        return SAgg("map", "", {0: a[0], 1: a[1]})

    def m_max(I, st, a):
        sp = a[0].f[0]
        L = len(sp.f[0].ch)
        if L == 0:
            # split of the empty string yields one empty piece
            return kq.stubs(1)["__max__"](I, st, [SAgg("map", "", {0: SAgg("split", "", {0: kq.AStr([bv(0)], z3.BitVecVal(0, 64)), 1: sp.f[1]}), 1: a[0].f[1]})])
        return kq.stubs(L)["__max__"](I, st, a)

    def m_char_to_string(I, st, a):
        return LStr([charv(I, st, a[0])])

    def m_repeat(I, st, a):
        s, n = lstr(I, st, a[0]), a[1].t
        cap = 24
        alts = [(n == k, LStr(s.ch * k)) for k in range(cap)]
        alts.append((z3.UGE(n, cap), ("panic", "K-litfmt bound: repeat count above 23")))
        return alts

    def m_new_display(I, st, a):
        return SAgg("fmtarg", "", {0: a[0]})

    def m_args_new(I, st, a):
        return SAgg("fmtargs", "", {0: models.deref(I, st, a[0]), 1: models.deref(I, st, a[1])})

    def expand(I, st, fa):
        tpl, args = fa.f[0], fa.f[1]
        if not (isinstance(tpl, SAgg) and tpl.kind == "bytes") or not isinstance(args, SAgg):
            raise Inconclusive(f"K-litfmt: fmt template {tpl} args {args}")
        argv = [args.f[k] for k in sorted(k for k in args.f if isinstance(k, int))]
        out = []
        for kind, v in sqlstr.decode_template(tpl.f[0]):
            if kind == "lit":
                out += [bv(c) for c in v]
            else:
                arg = argv[v]
                if not (isinstance(arg, SAgg) and arg.kind == "fmtarg"):
                    raise Inconclusive(f"K-litfmt: fmt argument {arg}")
                out += lstr(I, st, arg.f[0]).ch
        return out

    def m_format(I, st, a):
        return LStr(expand(I, st, a[0]))

    def m_write_fmt(I, st, a):
        st.trace.append(("out", expand(I, st, a[1])))
        return SEnum("Result", 0, {0: {0: SUnit()}})

    def m_write_str(I, st, a):
        st.trace.append(("out", lstr(I, st, a[1]).ch))
        return SEnum("Result", 0, {0: {0: SUnit()}})

    ident = lambda I, st, a: a[0]
    return [
        (r"^(std::string::|alloc::string::)?String::new$", m_string_new), (r"^(std::string::|alloc::string::)?String::push$", m_string_push),
        (r"^(std::string::|alloc::string::)?String::as_str$", ident), (r"^<(std::string::|alloc::string::)?String as (std::ops::)?Deref>::deref$", ident),
        (r"^core::str::<impl str>::chars$", m_chars), (r"^<(std::str::|core::str::)?Chars<'_> as IntoIterator>::into_iter$", ident),
        (r"^<(std::str::|core::str::)?Chars<'_> as Iterator>::next$", m_chars_next),
        (r"^(core::)?char::methods::<impl char>::escape_default$", m_escape_default),
        (r"^(core::)?char::methods::<impl char>::escape_debug$", m_escape_debug),
        (r"^<(std::string::|alloc::string::)?String as Extend<char>>::extend(::<.*>)?$", m_extend),
        (r"^core::str::<impl str>::starts_with$", m_starts), (r"^core::str::<impl str>::ends_with$", m_ends),
        (r"^core::str::<impl str>::contains$", m_contains), (r"^core::str::<impl str>::len$", m_len),
        (r"^((std::string::|alloc::string::)?String|core::str::<impl str>)::is_empty$", lambda I, st, a: SBool(z3.BoolVal(len(lstr(I, st, a[0]).ch) == 0))),
        (r"^(std::string::|alloc::string::)?String::len$", m_len),
        (r"^(std|alloc|core)::str::<impl str>::replace$", m_replace),
        (r"^core::str::<impl str>::split$", m_split),
        (r"^<(std|core)::str::Split<.*> as Iterator>::map$", m_map),
        (r"^<(std|core)::iter::Map<(std|core)::str::Split<.*>, .*> as Iterator>::max$", m_max),
        (r"^core::num::<impl usize>::div_ceil$", kq.stubs(1)["core::num::<impl usize>::div_ceil"]),
        (r"^<char as ToString>::to_string$", m_char_to_string),
        (r"^(std|alloc)::str::<impl str>::repeat$", m_repeat),
        (r"^core::fmt::rt::Argument::<'_>::new_display$", m_new_display),
        (r"^(core::fmt::|std::fmt::)?Arguments::<'_>::new$", m_args_new),
        (r"^(std|alloc)::fmt::format$", m_format), (r"^must_use$", ident),
        (r"^(core::fmt::|std::fmt::)?Formatter::<'_>::write_fmt$", m_write_fmt),
        (r"^(core::fmt::|std::fmt::)?Formatter::<'_>::write_str$", m_write_str),
    ]


def check_litfmt(R, drv, tier):
    import core
    import kernels
    from kchecks import _account
    t0 = time.time()
    L = 2       # over all scalars (n = 3 over all scalars: the printer alone has 2197 paths with nested closure runs - more than 20 minutes)
    try:
        register_enum("Literal", enum_from_source(__import__("os").path.join(core.REPO, "prqlc/prqlc-parser/src/lexer/lr.rs"), "Literal"))
        src = open(__import__("os").path.join(core.REPO, "prqlc/prqlc-parser/src/lexer/lr.rs")).read().split("\n")
        ln = next((i + 1 for i, l in enumerate(src) if re.match(r"\s*impl\s+(std::fmt::|fmt::|core::fmt::)?Display\s+for\s+Literal\b", l)), None)
        if ln is None:
            raise Inconclusive("impl Display for Literal not found in lr.rs")
        rx = (r"^(lr::<impl at [^>]*lr\.rs:%d:[^>]*>::fmt(::\{closure#\d+\})*|escape_all_except_quotes(::\{closure#\d+\})*|quote_string(::\{closure#\d+\})*|"
              r"multi_quoted_string::\{closure#0\}|parse_escape_sequence)($|::promoted)") % ln
        funcs = kernels.load_parser(rx)
        fmt_name = next((n for n in funcs if re.search(r"lr\.rs:%d:[^>]*>::fmt$" % ln, n)), None)
        reader = "multi_quoted_string::{closure#0}"
        if fmt_name is None or reader not in funcs:
            raise Inconclusive("printer or reader body not found in the prqlc-parser MIR")
        ppats = [(re.compile(p), f) for p, f in stubs()]
        rpats = [(re.compile(p), f) for p, f in strlex.stubs()]
    except Inconclusive as e:
        R.engine_error(f"K-litfmt: {e}")
        return
    nprint = nread = nviol = nq = 0
    seen = set()
    lastI = []

    def report(text_terms, model, out, detail):
        nonlocal nviol
        txt = "".join(chr(model.eval(c, model_completion=True).as_long()) for c in text_terms)
        printed = "".join(chr(model.eval(c, model_completion=True).as_long()) for c in out)
        if txt in seen or nviol >= 20:       # at most 20 witnesses are replayed and reported; the verdict needs one
            return
        seen.add(txt)
        prog = f"from t\nderive x = {sqlstr.prql_literal(txt)}\n"
        r = drv.req(op="fmt", prql=prog)
        if r.get("ok") and (not r.get("same_tree") or r.get("reparse_errors") or not r.get("idempotent")):
            nviol += 1
            R.violation({"engine": "mirsym", "kernel": "K-litfmt", "kind": "fmt_string_roundtrip"},
                        f"K-litfmt: the string {txt!r} is printed as {printed!r}, which does not lex back to it ({detail})",
                        {"prql": prog, "formatted": r.get("formatted"), "text": txt})
        elif r.get("ok"):
            R.engine_error(f"ENCODER-MISMATCH K-litfmt: the model text {txt!r} (printed {printed!r}: {detail}) survives fmt + re-parse in the real code")
        else:
            R.engine_error(f"K-litfmt: replay program for {txt!r} does not format: {str(r)[:200]}")

    try:
        LQ = 4 if tier == "quick" else 5
        runs = [(n, "any") for n in range(L + 1)] + [(n, "quotes") for n in range(L + 1, LQ + 1)]
        if tier != "quick":
            runs.insert(L + 1, (3, "mixed"))
        budget = float(__import__("os").environ.get("VERIF_KERNEL_BUDGET_S", "0") or 0) or (2700.0 if tier == "thorough" else 1200.0)
        for n, alphabet in runs:
            if time.time() - t0 > budget:
                R.cov.setdefault("bounds", {})["K-litfmt-stopped"] = f"time budget of {budget:.0f} s reached before the run (n = {n}, alphabet {alphabet}); not explored in this run"
                continue
            text = [z3.BitVec(f"lit{n}_c{i}", 32) for i in range(n)]
            if alphabet == "any":
                dom = [strlex.scalar(c) for c in text]
            elif alphabet == "mixed":   # one symbolic class per way the printer treats a character: quotes, backslash, newline, letters, 2- and 4-digit \u escapes
                dom = [z3.Or(c == 34, c == 39, c == 92, c == 10, z3.And(z3.UGE(c, 97), z3.ULE(c, 122)), z3.And(z3.UGE(c, 0xE0), z3.ULE(c, 0xFF)),
                             z3.And(z3.UGE(c, 0x4E00), z3.ULE(c, 0x4E10))) for c in text]
            else:       # longer texts over the characters the delimiter logic looks at: both quotes, the backslash, one letter class
                dom = [z3.Or(c == 34, c == 39, c == 92, z3.And(z3.UGE(c, 97), z3.ULE(c, 122))) for c in text]
            I = Interp(funcs, unwind=12 * n + 12, timeout_s=600 if tier == "quick" else 3000, max_paths=200000)
            I.stub_patterns = ppats
            I.lazy = False
            st = State()
            st.pc = list(dom)
            st.heap.append(mk_enum("Literal", "String", {0: LStr(text)}))
            st.frames.append(I.new_frame(fmt_name, [SRef(-1, ("cell", 0)), SOpaque("formatter", False)]))
            I.deadline = time.time() + I.timeout_s
            I.exits = []
            I.explore(st)
            lastI[:] = [I]
            for k_exit, e in enumerate(I.exits):
                if time.time() - t0 > budget:
                    R.cov.setdefault("bounds", {})["K-litfmt-stopped"] = (f"time budget of {budget:.0f} s reached inside the run n = {n} ({alphabet}): {k_exit} of {len(I.exits)} "
                                                                           "printer paths were composed with the reader; the rest was not explored in this run")
                    break
                nprint += 1
                if e.kind != "return":
                    v, model, dt = kernels.check(e.pc, z3.BoolVal(True))
                    nq += 1
                    R.q(v, dt)
                    if v == "sat":
                        report(text, model, [], f"printer exit {e.kind}: {e.msg}")
                    continue
                out = []
                for ev in e.trace:
                    if isinstance(ev, tuple) and ev and ev[0] == "out":
                        out += ev[1]
                if not out:
                    R.engine_error("K-litfmt: a printer path wrote nothing")
                    continue
                # the lexer's choice tries the double quote first, then the single quote
                for q in (strlex.DQ, strlex.SQ):
                    pc0 = list(e.pc) + [out[0] == q]
                    I2 = Interp(funcs, unwind=3 * len(out) + 8, timeout_s=300, max_paths=20000)
                    if not I2.feasible(pc0):
                        continue
                    I2.stub_patterns = rpats
                    I2.lazy = False
                    s2 = State()
                    s2.pc = pc0
                    s2.heap.append(SAgg("closure", "", {0: SInt(bv(q), 32, False), 1: SBool(z3.BoolVal(True))}))
                    s2.heap.append(SAgg("inputref", "", {0: sqlstr.Txt(out, z3.BitVecVal(len(out), 64), "printed"), "pos": 0}))
                    s2.frames.append(I2.new_frame(reader, [SRef(-1, ("cell", 0)), SRef(-1, ("cell", 1))]))
                    I2.deadline = time.time() + I2.timeout_s
                    I2.exits = []
                    I2.explore(s2)
                    lastI[1:] = [I2]
                    for x in I2.exits:
                        nread += 1
                        val = x.value
                        pos = [t[1] for t in x.trace if isinstance(t, tuple) and t and t[0] == "pos"]
                        fin = pos[-1] if pos else 0
                        okv = x.kind == "return" and isinstance(val, SEnum) and val.ty == "Result" and val.disc == 0
                        if not okv or len(val.pay[0][0].items) != n or fin != len(out):
                            goal, detail = z3.BoolVal(True), (f"reader exit {x.kind} {x.msg or ''}" if not okv else
                                                               f"{len(val.pay[0][0].items)} characters read up to position {fin} of {len(out)}")
                        else:
                            items = val.pay[0][0].items
                            goal = z3.Or(*[it.t != c for it, c in zip(items, text)]) if n else z3.BoolVal(False)
                            detail = "a character differs"
                        v, model, dt = kernels.check(x.pc, goal, timeout_ms=60000)
                        nq += 1
                        R.q(v, dt)
                        if v == "unknown":
                            R.engine_error("K-litfmt: unknown")
                        if v == "sat":
                            report(text, model, out, detail)
                # a first character that is no quote at all
                v, model, dt = kernels.check(list(e.pc), z3.And(out[0] != strlex.DQ, out[0] != strlex.SQ))
                nq += 1
                R.q(v, dt)
                if v == "sat":
                    report(text, model, out, "the printed text does not start with a quote")
    except Inconclusive as e:
        R.engine_error(f"K-litfmt: {e}")
        return
    for I in lastI:
        _account(R, I, "K-litfmt")
    if nread < nprint or nprint < 3:
        R.engine_error(f"K-litfmt: vacuous - {nprint} printer paths, {nread} reader paths")
    R.cov["states"] = R.cov.get("states", 0) + nprint + nread
    R.sample({"kernel": "K-litfmt", "printer_paths": nprint, "reader_paths": nread, "queries": nq,
              "property": f"for every string of <= {L} characters (every Unicode scalar; up to {LQ} characters over quotes, backslash and letters) the text Display writes for Literal::String is read back by the lexer's string reader "
              "as exactly that string, consuming all of it", "wall_s": round(time.time() - t0, 2)})
    R.cov.setdefault("bounds", {})["K-litfmt"] = (f"strings of at most {L} characters over every Unicode scalar, strings of {L + 1}..{LQ} characters over the alphabet "
                                                  "{double quote, single quote, backslash, a-z}" + ("" if tier == "quick" else "; strings of 3 characters over {quotes, backslash, newline, a-z, U+00E0..FF, U+4E00..4E10}") + "; printer and reader bodies from the prqlc-parser MIR composed path by path")
    core.log(f"[K-litfmt] {nprint} printer paths, {nread} reader paths, {nq} queries, {nviol} violations in {time.time()-t0:.1f}s")


def interp_stubs():
    """models for display_interpolation (prqlc codegen): String += &str, iteration over the slice of parts"""
    def m_add_assign(I, st, a):
        r, x = a
        s = lstr(I, st, r)
        I.write(st, r.depth, r.place, LStr(s.ch + lstr(I, st, x).ch))
        return SUnit()

    def m_slice_iter(I, st, a):
        v = models.deref(I, st, a[0])
        if not isinstance(v, SVec):
            raise Inconclusive(f"K-interp: iteration over {v}")
        return SAgg("cursor", "SliceIter", {0: v, "pos": 0})

    def m_slice_next(I, st, a):
        r = a[0]
        c = models.deref(I, st, r)
        v, i = c.f[0], c.f["pos"]
        if i >= len(v.items):
            return none()
        nf = dict(c.f)
        nf["pos"] = i + 1
        I.write(st, r.depth, r.place, SAgg("cursor", "SliceIter", nf))
        st.heap.append(v.items[i])
        return some(SRef(-1, ("cell", len(st.heap) - 1)))

    def m_write_expr(I, st, a):
        return some(LStr([bv("a")]))

    return [
        (r"^<(std::string::|alloc::string::)?String as (std::ops::|core::ops::)?AddAssign<&str>>::add_assign$", m_add_assign),
        (r"^(std::string::|alloc::string::)?String::push_str$", m_add_assign),
        (r"^<&\[.*\] as IntoIterator>::into_iter$", m_slice_iter), (r"^core::slice::<impl \[.*\]>::iter$", m_slice_iter),
        (r"^<(std|core)::slice::Iter<'_, .*> as Iterator>::next$", m_slice_next),
        (r"^<(prqlc_parser::parser::)?pr::Expr as WriteSource>::write$", m_write_expr),
        (r"^<WriteOpt as Clone>::clone$", lambda I, st, a: SOpaque("opt", False)),
    ]


def check_interp(R, drv, tier):
    """K-interp (C14): the text `fmt` writes for an s-/f-string, read by the lexer's string reader, is the original text with every
    brace doubled (the form the interpolation parser - combinators, not executed - turns back into the text) and expressions as {..}.
    Printer: codegen::ast::display_interpolation (prqlc MIR); reader: multi_quoted_string's closure + parse_escape_sequence (parser MIR)."""
    import core
    import kernels
    from kchecks import _account
    t0 = time.time()
    L = 2 if tier == "quick" else 3
    LQ = 4 if tier == "quick" else 5
    try:
        register_enum("InterpolateItem", enum_from_source(__import__("os").path.join(core.REPO, "prqlc/prqlc-parser/src/generic.rs"), "InterpolateItem"))
        pf = dict(kernels.load(r"^display_interpolation($|::promoted|::\{closure)"))
        rf = kernels.load_parser(r"^(multi_quoted_string::\{closure#0\}|parse_escape_sequence)($|::promoted)")
        reader = "multi_quoted_string::{closure#0}"
        if "display_interpolation" not in pf or reader not in rf:
            raise Inconclusive("display_interpolation or the string reader not found in the MIR")
        ppats = [(re.compile(p), f) for p, f in interp_stubs() + stubs()]
        rpats = [(re.compile(p), f) for p, f in strlex.stubs()]
    except Inconclusive as e:
        R.engine_error(f"K-interp: {e}")
        return
    nprint = nread = nviol = nq = 0
    seen = set()
    keepI = []

    def doubled(c):
        """expected reading of one text character: braces doubled"""
        return None

    def report(texts, model, out, detail, shape):
        nonlocal nviol
        vals = ["".join(chr(model.eval(c, model_completion=True).as_long()) for c in t) for t in texts]
        printed = "".join(chr(model.eval(c, model_completion=True).as_long()) for c in out)
        key = (shape, tuple(vals))
        if key in seen or nviol >= 20:       # at most 20 witnesses are replayed and reported; the verdict needs one
            return
        seen.add(key)

        def src(t):
            return "".join({"\\": "\\\\", '"': '\\"', "{": "{{", "}": "}}"}.get(c, c) if 0x20 <= ord(c) <= 0x7E else "\\u{%x}" % ord(c) for c in t)
        body = src(vals[0]) if shape == "s" else src(vals[0]) + "{a}" + src(vals[1])
        prog = f'from t\nderive x = f"{body}"\n'
        r = drv.req(op="fmt", prql=prog)
        if r.get("ok") and (not r.get("same_tree") or r.get("reparse_errors") or not r.get("idempotent")):
            nviol += 1
            R.violation({"engine": "mirsym", "kernel": "K-interp", "kind": "fmt_interpolation_roundtrip"},
                        f"K-interp: the f-string text {vals!r} is printed as {printed!r}, which does not read back to it ({detail})",
                        {"prql": prog, "formatted": r.get("formatted"), "text": repr(vals)})
        elif r.get("ok"):
            R.engine_error(f"ENCODER-MISMATCH K-interp: the model text {vals!r} (printed {printed!r}: {detail}) survives fmt + re-parse in the real code")
        else:
            R.cov.setdefault("unobservable_models", []).append(["K-interp", repr(vals), "replay program rejected: " + str(r.get("errors"))[:120]])

    try:
        runs = []
        for n in range(L + 1):
            runs.append(("s", [n], "any"))
        for n in range(L + 1, LQ + 1):
            runs.append(("s", [n], "special"))
        for n1, n2 in ((0, 0), (1, 0), (0, 1), (1, 1)) + (((2, 1), (1, 2)) if tier != "quick" else ()):
            runs.append(("ses", [n1, n2], "special"))
        budget = float(__import__("os").environ.get("VERIF_KERNEL_BUDGET_S", "0") or 0) or (2400.0 if tier == "thorough" else 1200.0)
        for shape, lens, alphabet in runs:
            if time.time() - t0 > budget:
                R.cov.setdefault("bounds", {})["K-interp-stopped"] = f"time budget of {budget:.0f} s reached before the run {shape} {lens} ({alphabet}); not explored in this run"
                continue
            texts = [[z3.BitVec(f"ip{shape}{len(lens)}_{k}_{n}_c{i}", 32) for i in range(n)] for k, n in enumerate(lens)]
            dom = []
            for t in texts:
                for c in t:
                    dom.append(strlex.scalar(c) if alphabet == "any" else z3.Or(c == 34, c == 39, c == 92, c == 123, c == 125, z3.And(z3.UGE(c, 97), z3.ULE(c, 122))))
            idx_s, idx_e = VARIANTS["InterpolateItem"].index("String"), VARIANTS["InterpolateItem"].index("Expr")
            parts = [SEnum("InterpolateItem", idx_s, {idx_s: {0: LStr(texts[0])}})]
            if shape == "ses":
                parts += [SEnum("InterpolateItem", idx_e, {idx_e: {0: SOpaque("expr", False), "expr": SOpaque("expr", False), 1: SOpaque("format", False), "format": SOpaque("format", False)}}),
                          SEnum("InterpolateItem", idx_s, {idx_s: {0: LStr(texts[1])}})]
            I = Interp(pf, unwind=8 * sum(lens) + 16, timeout_s=600, max_paths=100000)
            I.stub_patterns = ppats
            I.lazy = False
            st = State()
            st.pc = list(dom)
            st.heap.append(SVec(parts))
            st.frames.append(I.new_frame("display_interpolation", [LStr([bv("f")]), SRef(-1, ("cell", 0)), SOpaque("opt", False)]))
            I.deadline = time.time() + I.timeout_s
            I.exits = []
            I.explore(st)
            keepI[:1] = [I]
            for k_exit, e in enumerate(I.exits):
                if time.time() - t0 > budget:
                    R.cov.setdefault("bounds", {})["K-interp-stopped"] = (f"time budget of {budget:.0f} s reached inside the run {shape} {lens} ({alphabet}): {k_exit} of {len(I.exits)} "
                                                                           "printer paths were composed with the reader; the rest was not explored in this run")
                    break
                nprint += 1
                v0 = e.value
                if e.kind != "return" or not (isinstance(v0, SEnum) and v0.ty == "Option" and v0.disc == 1):
                    v, model, dt = kernels.check(e.pc, z3.BoolVal(True))
                    nq += 1
                    R.q(v, dt)
                    if v == "sat":
                        report(texts, model, [], f"printer exit {e.kind} {e.msg or 'None'}", shape)
                    continue
                out = lstr(I, st, v0.pay[1][0]).ch
                if len(out) < 3 or not z3.is_true(z3.simplify(z3.And(out[0] == bv("f"), out[1] == strlex.DQ))):
                    R.engine_error("K-interp: the printed text does not start with the prefix and a double quote")
                    continue
                body = out[1:]
                I2 = Interp(rf, unwind=3 * len(body) + 8, timeout_s=300, max_paths=20000)
                I2.stub_patterns = rpats
                I2.lazy = False
                s2 = State()
                s2.pc = list(e.pc)
                s2.heap.append(SAgg("closure", "", {0: SInt(bv(strlex.DQ), 32, False), 1: SBool(z3.BoolVal(True))}))
                s2.heap.append(SAgg("inputref", "", {0: sqlstr.Txt(body, z3.BitVecVal(len(body), 64), "printed"), "pos": 0}))
                s2.frames.append(I2.new_frame(reader, [SRef(-1, ("cell", 0)), SRef(-1, ("cell", 1))]))
                I2.deadline = time.time() + I2.timeout_s
                I2.exits = []
                I2.explore(s2)
                keepI[1:] = [I2]
                for x in I2.exits:
                    nread += 1
                    val = x.value
                    pos = [t[1] for t in x.trace if isinstance(t, tuple) and t and t[0] == "pos"]
                    fin = pos[-1] if pos else 0
                    okv = x.kind == "return" and isinstance(val, SEnum) and val.ty == "Result" and val.disc == 0
                    if not okv or fin != len(body):
                        goal, detail = z3.BoolVal(True), (f"reader exit {x.kind} {x.msg or ''}" if not okv else f"the reader stops at position {fin} of {len(body)}")
                    else:
                        items = [it.t for it in val.pay[0][0].items]
                        # expected: every text character once, braces twice; `{a}` between the two texts
                        # decided as a match relation because the number of braces is symbolic
                        exp_seq = [("t", c) for c in texts[0]]
                        if shape == "ses":
                            exp_seq += [("l", bv("{")), ("l", bv("a")), ("l", bv("}"))] + [("t", c) for c in texts[1]]
                        memo = {}

                        def match(i, j):
                            if (i, j) in memo:
                                return memo[(i, j)]
                            if j == len(exp_seq):
                                r_ = z3.BoolVal(i == len(items))
                            elif i >= len(items):
                                r_ = z3.BoolVal(False)
                            else:
                                kind, c = exp_seq[j]
                                if kind == "l":
                                    r_ = z3.And(items[i] == c, match(i + 1, j + 1))
                                else:
                                    brace = z3.Or(c == 123, c == 125)
                                    one = z3.And(z3.Not(brace), items[i] == c, match(i + 1, j + 1))
                                    two = z3.And(brace, items[i] == c, items[i + 1] == c, match(i + 2, j + 1)) if i + 1 < len(items) else z3.BoolVal(False)
                                    r_ = z3.Or(one, two)
                            memo[(i, j)] = r_
                            return r_
                        goal, detail = z3.Not(match(0, 0)), "the text read back differs"
                    v, model, dt = kernels.check(x.pc, goal, timeout_ms=60000)
                    nq += 1
                    R.q(v, dt)
                    if v == "unknown":
                        R.engine_error("K-interp: unknown")
                    if v == "sat":
                        report(texts, model, out, detail, shape)
    except Inconclusive as e:
        R.engine_error(f"K-interp: {e}")
        return
    for I in keepI:
        _account(R, I, "K-interp")
    if nread < nprint or nprint < 3:
        R.engine_error(f"K-interp: vacuous - {nprint} printer paths, {nread} reader paths")
    R.cov["states"] = R.cov.get("states", 0) + nprint + nread
    R.sample({"kernel": "K-interp", "printer_paths": nprint, "reader_paths": nread, "queries": nq,
              "property": f"for every interpolated string with one text item of <= {L} characters (every scalar; <= {LQ} over quotes, backslash, braces, letters) or text-expression-text, "
              "the lexer's string reader returns the text with doubled braces (and {a} for the expression) from what display_interpolation wrote", "wall_s": round(time.time() - t0, 2)})
    R.cov.setdefault("bounds", {})["K-interp"] = (f"one text item of <= {L} characters over all scalars / <= {LQ} over the alphabet {{\", ', \\, {{, }}, a-z}}; text + expression + text with <= 1 (quick) / 2 characters each; "
                                                  "the expression's own text is a stub; the interpolation parser (combinators) is not executed")
    core.log(f"[K-interp] {nprint} printer paths, {nread} reader paths, {nq} queries, {nviol} violations in {time.time()-t0:.1f}s")
