"""Parser for rustc's textual MIR (`--emit=mir`, mir-opt-level=0)."""
import re


class Func:
    def __init__(self, name, args, ret):
        self.name, self.args, self.ret = name, args, ret
        self.locals = {}      # n -> type string
        self.debug = {}       # source name -> place text (last binding wins)
        self.debug_list = []  # (source name, place text) in declaration order (names are re-bound by shadowing)
        self.blocks = {}      # n -> Block
        self.src_line = None


class Block:
    def __init__(self):
        self.stmts = []       # (lhs_place_text, rvalue_text)
        self.term = None      # tuple


def split_top(s, sep=","):
    """split at top-level separators (outside () [] {} <> and string literals)"""
    out, depth, cur, i, n = [], 0, [], 0, len(s)
    while i < n:
        ch = s[i]
        if ch == '"':
            j = i + 1
            while j < n and s[j] != '"':
                j += 2 if s[j] == "\\" else 1
            cur.append(s[i:j + 1])
            i = j + 1
            continue
        if ch == "'" and i + 2 < n and (s[i + 2] == "'" or (s[i + 1] == "\\" and "'" in s[i + 2:i + 6])):
            j = s.index("'", i + 2 if s[i + 1] != "\\" else i + 3)
            cur.append(s[i:j + 1])
            i = j + 1
            continue
        if ch == "-" and i + 1 < n and s[i + 1] == ">":
            cur.append("->")
            i += 2
            continue
        if ch in "([{<":
            depth += 1
        elif ch in ")]}>":
            depth -= 1
        if ch == sep and depth == 0:
            out.append("".join(cur).strip())
            cur = []
        else:
            cur.append(ch)
        i += 1
    last = "".join(cur).strip()
    if last or out:
        out.append(last)
    return out


def find_top(s, token):
    """index of token at top level (depth 0), or -1"""
    depth, i, n = 0, 0, len(s)
    while i < n:
        ch = s[i]
        if ch == '"':
            j = i + 1
            while j < n and s[j] != '"':
                j += 2 if s[j] == "\\" else 1
            i = j + 1
            continue
        if ch == "'" and i + 2 < n and (s[i + 2] == "'" or (s[i + 1] == "\\" and "'" in s[i + 2:i + 12])):
            # char literal ('"', '\'', '\u{1f}'), not a lifetime
            j = s.index("'", i + 2 if s[i + 1] != "\\" else i + 3)
            i = j + 1
            continue
        if depth == 0 and s.startswith(token, i):
            return i
        if ch == "-" and i + 1 < n and s[i + 1] == ">":
            i += 2
            continue
        if ch in "([{<":
            depth += 1
        elif ch in ")]}>":
            depth -= 1
        i += 1
    return -1


def last_balanced_paren(s):
    """(start, end) of the last top-level (...) group ending at the end of s"""
    assert s.endswith(")"), s
    depth, i = 0, len(s) - 1
    in_str = False
    while i >= 0:
        ch = s[i]
        if not in_str and ch == "'" and i >= 2 and s[i - 2] == "'" and s[i - 1] in "\"()[]{}<>":
            i -= 3          # char literal holding a quote or a bracket
            continue
        if ch == '"' and (i == 0 or s[i - 1] != "\\"):
            in_str = not in_str
        elif not in_str:
            if ch == ")":
                depth += 1
            elif ch == "(":
                depth -= 1
                if depth == 0:
                    return i, len(s) - 1
        i -= 1
    raise ValueError("unbalanced: " + s)


HDR = re.compile(r"^fn (.+?)\((.*)\) -> (.+) \{$")
CONST_HDR = re.compile(r"^const (.+): (.+?) = \{$")
LOCAL = re.compile(r"^\s*let (?:mut )?_(\d+): (.+);$")
DEBUG = re.compile(r"^\s*debug (\S+) => (.+);$")
BB = re.compile(r"^\s*bb(\d+)(?: \(cleanup\))?: \{$")
TARGETS = re.compile(r"-> \[(.*)\]$")


def parse_targets(t):
    d = {}
    for part in split_top(t):
        if ":" in part:
            k, v = part.split(":", 1)
            d[k.strip()] = v.strip()
        else:
            kv = part.split(None, 1)
            d[kv[0]] = kv[1] if len(kv) > 1 else ""
    return d


def parse_file(path, want=None):
    """returns {name: Func}. `want`: optional predicate on function name to keep memory low."""
    funcs = {}
    cur = None
    blk = None
    with open(path) as f:
        for line in f:
            line = line.rstrip("\n")
            if cur is None:
                if line.startswith("const ") and line.endswith("= {"):
                    m = CONST_HDR.match(line)
                    if m and (want is None or want(m.group(1))):
                        cur = Func("const " + m.group(1), [], m.group(2))
                        cur.locals[0] = m.group(2)
                    else:
                        cur = False if m else None
                    continue
                if line.startswith("fn "):
                    m = HDR.match(line)
                    if not m:
                        continue
                    name = m.group(1)
                    if want is not None and not want(name):
                        cur = False
                        continue
                    args = []
                    for a in split_top(m.group(2)):
                        if a:
                            am = re.match(r"_(\d+): (.+)$", a)
                            if am is None:      # an argument type the splitter cannot take apart (`impl Fn(&T) -> U + 'a`): keep the text
                                args.append((len(args) + 1, a))
                                continue
                            args.append((int(am.group(1)), am.group(2)))
                    cur = Func(name, args, m.group(3))
                    cur.locals[0] = m.group(3)
                    for n, t in args:
                        cur.locals[n] = t
                continue
            if cur is False:
                if line == "}":
                    cur = None
                continue
            if line == "}":
                funcs[cur.name] = cur
                cur = None
                blk = None
                continue
            if blk is None:
                m = LOCAL.match(line)
                if m:
                    cur.locals[int(m.group(1))] = m.group(2)
                    continue
                m = DEBUG.match(line)
                if m:
                    cur.debug[m.group(1)] = m.group(2)
                    cur.debug_list.append((m.group(1), m.group(2)))
                    continue
                m = BB.match(line)
                if m:
                    blk = Block()
                    cur.blocks[int(m.group(1))] = blk
                continue
            s = line.strip()
            if s == "}":
                blk = None
                continue
            if not s.endswith(";"):
                continue
            s = s[:-1]
            parse_stmt(s, blk)
    return funcs


def bbn(t):
    return int(t[2:]) if t.startswith("bb") else None


def parse_stmt(s, blk):
    if s.startswith(("StorageLive(", "StorageDead(", "FakeRead(", "PlaceMention(", "AscribeUserType(", "Retag(", "nop", "Coverage", "ConstEvalCounter", "BackwardIncompatibleDropHint")):
        return
    if s.startswith("goto -> "):
        blk.term = ("goto", bbn(s[8:]))
        return
    if s.startswith("switchInt("):
        m = TARGETS.search(s)
        op = s[len("switchInt("):s.rindex(") -> [")]
        tg = parse_targets(m.group(1))
        blk.term = ("switch", op, {(int(k) if k != "otherwise" else None): bbn(v) for k, v in tg.items()})
        return
    if s == "return":
        blk.term = ("return",)
        return
    if s == "unreachable":
        blk.term = ("unreachable",)
        return
    if s.startswith("resume") or s.startswith("terminate"):
        blk.term = ("resume",)
        return
    if s.startswith("drop("):
        m = TARGETS.search(s)
        tg = parse_targets(m.group(1))
        blk.term = ("goto", bbn(tg["return"]))
        return
    if s.startswith("assert("):
        m = TARGETS.search(s)
        tg = parse_targets(m.group(1))
        inner = s[len("assert("):s.rindex(") -> [")]
        parts = split_top(inner)
        cond = parts[0]
        expect = True
        if cond.startswith("!"):
            expect = False
            cond = cond[1:]
        blk.term = ("assert", cond, expect, parts[1] if len(parts) > 1 else "", bbn(tg["success"]))
        return
    if s.startswith("falseEdge -> [real: ") or s.startswith("falseUnwind -> [real: "):
        m = TARGETS.search(s)
        blk.term = ("goto", bbn(parse_targets(m.group(1))["real"]))
        return
    # assignment or call
    eq = find_top(s, " = ")
    if eq < 0:
        # diverging call without destination, e.g. `panic(...) -> unwind continue`
        blk.term = ("call", None, s, None)
        return
    lhs, rhs = s[:eq], s[eq + 3:]
    arrow = find_top(rhs, " -> ")
    if arrow >= 0 and rhs[:arrow].endswith(")"):
        call = rhs[:arrow]
        tail = rhs[arrow + 4:]
        ret = None
        if tail.startswith("["):
            tg = parse_targets(tail[1:-1])
            ret = bbn(tg.get("return", "")) if "return" in tg else None
        blk.term = ("call", lhs, call, ret)
        return
    blk.stmts.append((lhs, rhs))
