#!/bin/bash
# Builds the framework from files on disk only (offline). Idempotent.
set -e
cd "$(dirname "$0")"
export CARGO_NET_OFFLINE=true RUSTUP_TOOLCHAIN=1.91.1
mkdir -p .build evidence
cp /repo/Cargo.lock engines/driver/Cargo.lock
(cd engines/driver && CARGO_TARGET_DIR=../../.build/driver cargo build --offline -q)
python3-vt -c "import z3; print('z3', z3.get_version_string())"
echo setup ok
