#!/bin/bash
# Builds the framework from files on disk only (offline). Idempotent.
set -e
cd "$(dirname "$0")"
export CARGO_NET_OFFLINE=true
mkdir -p .build evidence
cp /repo/Cargo.lock engines/driver/Cargo.lock
(cd engines/driver && RUSTUP_TOOLCHAIN=1.91.1 CARGO_TARGET_DIR=../../.build/driver cargo build --offline -q)
python3-vt -c "import z3; print('z3', z3.get_version_string())"
# warm the MIR cache (nightly front end, no codegen)
python3-vt -c "
import sys
sys.path[:0]=['lib','engines/mirsym']
import kernels
print(kernels.emit_mir())
print(kernels.emit_mir_parser())
print(kernels.emit_mir_sqlparser())"
echo setup ok
