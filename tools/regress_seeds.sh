#!/bin/bash
# usage: regress_seeds.sh [tier]   -- applies every recorded seed to /repo in turn, runs the quick check of the property it breaks,
# reverts, and prints one line per seed. Seeds whose meta.json says they are outside the claim are expected to be missed.
cd /verif
TIER=${1:-quick}
for d in seeded/*/; do
  id=$(basename $d)
  prop=$(python3 -c "import json;m=json.load(open('$d/meta.json'));print(m.get('breaks_property') or m.get('property') or '')" 2>/dev/null)
  outside=$(python3 -c "import json;m=json.load(open('$d/meta.json'));print('outside' if 'OUTSIDE' in str(m.get('status','')) else '')" 2>/dev/null)
  [ -z "$prop" ] && { echo "$id ?? no property"; continue; }
  patch=/verif/$d/patch.diff
  [ -f $d/patch_on_fixed_tree.diff ] && patch=/verif/$d/patch_on_fixed_tree.diff
  if ! git -C /repo apply --check $patch 2>/dev/null; then echo "$id $prop PATCH-DOES-NOT-APPLY"; continue; fi
  git -C /repo apply $patch
  out=$(./check $prop --tier $TIER 2>&1); rc=$?
  git -C /repo checkout -- . 
  n=$(echo "$out" | grep -c "^VIOLATION")
  echo "$id $prop rc=$rc violations=$n $outside"
done
