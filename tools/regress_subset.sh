#!/bin/bash
# usage: regress_subset.sh <regex on seed id> [tier]  -- like regress_seeds.sh for the seeds whose id matches
cd /verif
RX=$1; TIER=${2:-quick}
for d in seeded/*/; do
  id=$(basename $d)
  echo "$id" | grep -Eq "$RX" || continue
  prop=$(python3 -c "import json;m=json.load(open('$d/meta.json'));print(m.get('breaks_property') or m.get('property') or '')" 2>/dev/null)
  [ -z "$prop" ] && { echo "$id ?? no property"; continue; }
  patch=/verif/$d/patch.diff
  [ -f $d/patch_on_fixed_tree.diff ] && patch=/verif/$d/patch_on_fixed_tree.diff
  if ! git -C /repo apply --check $patch 2>/dev/null; then echo "$id $prop PATCH-DOES-NOT-APPLY"; continue; fi
  git -C /repo apply $patch
  out=$(./check $prop --tier $TIER 2>&1); rc=$?
  git -C /repo checkout -- .
  n=$(echo "$out" | grep -c "^VIOLATION")
  echo "$id $prop rc=$rc violations=$n"
done
