#!/bin/bash
# usage: try_seed.sh <seed-id> <PROP> [tier]   -- applies the seeded change to /repo, runs the check, reverts
set -u
SEED=$1; PROP=$2; TIER=${3:-quick}
P=/verif/seeded/$SEED/patch.diff; [ -f /verif/seeded/$SEED/patch_on_fixed_tree.diff ] && P=/verif/seeded/$SEED/patch_on_fixed_tree.diff; cd /repo && git apply $P || { echo "patch does not apply"; exit 3; }
cd /verif && ./check $PROP --tier $TIER > /tmp/try_$SEED.$PROP.log 2>&1; RC=$?
cp /verif/evidence/$PROP.json /tmp/try_$SEED.$PROP.evidence.json 2>/dev/null
cd /repo && git checkout -- .
git -C /verif checkout -- evidence/$PROP.json 2>/dev/null  # the evidence file of a run on a changed tree is not kept
echo "seed=$SEED prop=$PROP tier=$TIER exit=$RC"
grep -c "^VIOLATION" /tmp/try_$SEED.$PROP.log
grep "^VIOLATION" /tmp/try_$SEED.$PROP.log | head -5 | cut -c1-400
