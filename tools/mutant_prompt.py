#!/usr/bin/env python3
"""Print the prompt handed to an independent sub-agent that seeds a property-breaking change.
usage: mutant_prompt.py C03 /tmp/wt/c03 [extra hint]"""
import json, sys
pid, wt = sys.argv[1], sys.argv[2]
extra = sys.argv[3] if len(sys.argv) > 3 else ""
p = {json.loads(l)['id']: json.loads(l) for l in open('/verif/properties.jsonl')}[pid]
print(f"""You are helping evaluate a verification effort for the PRQL compiler (Rust, crate `prqlc`, repository max-sixty/prql). Your job is to act as a realistic source of regressions.

You have your own scratch git worktree of the repository at {wt} (detached HEAD at the current main). Work ONLY inside {wt}. Never read or write /repo or /verif. The sandbox has no network; use `cargo ... --offline`. Build output goes to {wt}/target (default) - do not set a shared target dir.

PROPERTY ({pid}: {p['title']})
{p['statement']}
Quantified over: {p['quantifier']['text']}

TASK
Make ONE small, realistic change to the compiler source under {wt}/prqlc (the kind of slip a maintainer could make in a refactor or "optimisation": an off-by-one, a wrong comparison, a dropped case, a swapped argument, a condition that is too broad or too narrow, two sites that each look fine alone but interact) such that:
 1. the workspace still compiles;
 2. the EXISTING test suite still passes, unedited. Run at least `cd {wt} && cargo test -p prqlc -p prqlc-parser --offline --no-fail-fast 2>&1 | tail -40` (lib + integration + doc tests; this includes many insta snapshot tests - none may change), and finally the whole workspace once: `cd {wt} && cargo test --workspace --no-fail-fast --offline 2>&1 | grep -E "^test result|FAILED|failed" | head -40`. If your change makes any existing test fail, it does not qualify: pick another change. Do not edit or add snapshot files or tests under the repository's test directories.
 3. the change BREAKS the property above for some inputs: there exists a PRQL program (and, if relevant, table contents) for which the compiler with your change violates the property, while the unchanged compiler satisfies it for that same input;
 4. the breakage needs something specific to manifest - an unusual but legitimate input, a particular combination of transforms, a multi-step pipeline, a boundary value, a specific dialect, two cooperating code sites - NOT something ordinary use or a trivial query would expose at once. {extra}

DELIVERABLES (all inside {wt}/MUTANT/, create the directory):
 - patch.diff : output of `git -C {wt} diff -- prqlc` (source change only; must apply with `git apply` on that commit). Do not commit.
 - demo.sh (executable) plus whatever files it needs (e.g. demo.prql, demo.py, a small Rust test file): a demonstration that exits 0 and prints PASS on the UNCHANGED compiler and exits non-zero printing FAIL on the changed one. It must build/run the compiler from the worktree it is run in (take the repository root as $1, default {wt}); e.g. `cargo run -q -p prqlc --offline --manifest-path $1/Cargo.toml -- compile --hide-signature-comment -t sql.sqlite demo.prql`, and where table contents matter execute the emitted SQL with python3's sqlite3 module and compare with the expected rows.
 - notes.md : which file/function you changed, why the existing tests do not notice, exactly what is needed to trigger it, and the wrong vs right behaviour for your demo input.
Verify the demo yourself in both states (toggle with `git apply -R MUTANT/patch.diff` / `git apply MUTANT/patch.diff`; NEVER use `git stash`: the stash is shared between all worktrees of the repository and other agents work in sibling worktrees) before finishing, and leave the worktree WITH the change applied. Be frugal with CPU: use at most `-j 6` for cargo.

Report back: a 10-line summary (changed site, trigger, demo result before/after, test-suite result).""")
