#!/bin/bash
# usage: confirm_mutant.sh <worktree> <seed-id> <property>
# Confirms a sub-agent's change independently: applies on a clean tree, builds, runs the existing test
# suite, runs the demo with and without the change; stores everything under /verif/seeded/<seed-id>/.
set -u
WT=$1; ID=$2; PROP=$3
OUT=/verif/seeded/$ID
mkdir -p $OUT
cp -r $WT/MUTANT/. $OUT/
cd $WT
# (no git stash here: the stash is shared between all worktrees of the repository)
git checkout -q -- . 
git apply --check $OUT/patch.diff || { echo "patch does not apply"; exit 3; }
# demo without the change
bash $OUT/demo.sh $WT > $OUT/demo_without.log 2>&1; RC_WITHOUT=$?
git apply $OUT/patch.diff
CARGO_NET_OFFLINE=true cargo test --workspace --no-fail-fast --offline -j 8 > $OUT/tests_with.log 2>&1; RC_TESTS=$?
PASSED=$(grep -E "^test result" $OUT/tests_with.log | awk '{s+=$4} END {print s}')
FAILED=$(grep -E "^test result" $OUT/tests_with.log | awk '{s+=$6} END {print s}')
bash $OUT/demo.sh $WT > $OUT/demo_with.log 2>&1; RC_WITH=$?
tail -5 $OUT/tests_with.log > $OUT/tests_with.tail; rm -f $OUT/tests_with.log
cat > $OUT/confirm.json <<JSON
{"seed": "$ID", "property": "$PROP", "tests_rc": $RC_TESTS, "tests_passed": ${PASSED:-0}, "tests_failed": ${FAILED:-0},
 "demo_rc_without_change": $RC_WITHOUT, "demo_rc_with_change": $RC_WITH,
 "confirmed": $( [ $RC_TESTS -eq 0 ] && [ $RC_WITHOUT -eq 0 ] && [ $RC_WITH -ne 0 ] && echo true || echo false ),
 "ran": "git apply patch.diff on the pinned commit in a scratch worktree; cargo test --workspace --no-fail-fast --offline; demo.sh with and without the change"}
JSON
cat $OUT/confirm.json
