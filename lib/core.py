"""Shared plumbing: build + talk to the driver, evidence, known findings, verdict bookkeeping."""
import hashlib
import json
import os
import subprocess
import sys
import time

VERIF = os.path.dirname(os.path.dirname(os.path.abspath(__file__)))
REPO = os.environ.get("VERIF_REPO", "/repo")
BUILD = os.path.join(VERIF, ".build")
EVID = os.path.join(VERIF, "evidence")
ENV = dict(os.environ, CARGO_NET_OFFLINE="true", RUSTUP_TOOLCHAIN="1.91.1")

EXIT_OK, EXIT_VIOLATION, EXIT_ENGINE = 0, 1, 2


class EngineError(Exception):
    """Inconclusive / encoder mismatch / build failure: never a pass, never a violation."""


def log(*a):
    print(*a, file=sys.stderr, flush=True)


def tree_hash():
    """Hash of /repo's working tree sources that the engines depend on."""
    h = hashlib.sha256()
    for sub in ("prqlc/prqlc/src", "prqlc/prqlc-parser/src", "prqlc/prqlc/Cargo.toml",
                "prqlc/prqlc-parser/Cargo.toml", "Cargo.lock"):
        p = os.path.join(REPO, sub)
        if os.path.isfile(p):
            h.update(open(p, "rb").read())
            continue
        for d, _, fs in sorted(os.walk(p)):
            for f in sorted(fs):
                fp = os.path.join(d, f)
                h.update(fp.encode())
                h.update(open(fp, "rb").read())
    return h.hexdigest()[:16]


class FileLock:
    """advisory lock: several checks may run at once and share the build directories"""

    def __init__(self, path):
        self.path = path

    def __enter__(self):
        import fcntl
        os.makedirs(os.path.dirname(self.path), exist_ok=True)
        self.f = open(self.path, "w")
        fcntl.flock(self.f, fcntl.LOCK_EX)
        return self

    def __exit__(self, *a):
        import fcntl
        fcntl.flock(self.f, fcntl.LOCK_UN)
        self.f.close()


def build_driver():
    with FileLock(os.path.join(BUILD, "driver.lock")):
        return _build_driver()


def _build_driver():
    src = os.path.join(VERIF, "engines", "driver")
    tgt = os.path.join(BUILD, "driver")
    os.makedirs(tgt, exist_ok=True)
    lock = os.path.join(src, "Cargo.lock")
    try:
        data = open(os.path.join(REPO, "Cargo.lock"), "rb").read()
        if not os.path.exists(lock) or open(lock, "rb").read() != data:
            # refresh only if the repo's lock changed; cargo --offline re-resolves the subset
            open(lock, "wb").write(data)
    except OSError:
        pass
    env = dict(ENV, CARGO_TARGET_DIR=tgt)
    t = time.time()
    r = subprocess.run(["cargo", "build", "--offline", "-q"], cwd=src, env=env,
                       stdout=subprocess.PIPE, stderr=subprocess.STDOUT, text=True)
    if r.returncode != 0:
        raise EngineError("driver build failed:\n" + r.stdout[-3000:])
    log(f"[driver] build ok in {time.time()-t:.1f}s")
    return os.path.join(tgt, "debug", "vdriver")


class Driver:
    """Long-lived vdriver process (restarted if it dies, e.g. on a stack overflow abort)."""

    def __init__(self, path=None):
        self.path = path or build_driver()
        self.p = None
        self.n = 0

    def _start(self):
        self.p = subprocess.Popen([self.path], stdin=subprocess.PIPE, stdout=subprocess.PIPE,
                                  stderr=subprocess.DEVNULL, text=True, bufsize=1)

    def req(self, _timeout=None, **kw):
        if self.p is None or self.p.poll() is not None:
            self._start()
        self.n += 1
        try:
            self.p.stdin.write(json.dumps(kw) + "\n")
            self.p.stdin.flush()
            if _timeout is not None:
                import select
                ready, _, _ = select.select([self.p.stdout], [], [], _timeout)
                if not ready:
                    self.p.kill()
                    self.p.wait()
                    self.p = None
                    return {"ok": False, "hang": f"no answer within {_timeout}s (driver killed)"}
            line = self.p.stdout.readline()
        except (BrokenPipeError, OSError):
            line = ""
        if not line:
            rc = self.p.wait()
            self.p = None
            return {"ok": False, "crash": f"driver process died (rc={rc})"}
        return json.loads(line)

    def compile(self, prql, target="sql.sqlite", want_ast=False, want_rq=False, parse_dialect=None):
        kw = dict(op="compile", prql=prql, target=target, want_ast=want_ast, want_rq=want_rq)
        if parse_dialect:
            kw["parse_dialect"] = parse_dialect
        return self.req(**kw)

    def close(self):
        if self.p and self.p.poll() is None:
            try:
                self.p.stdin.close()
                self.p.wait(timeout=5)
            except Exception:
                self.p.kill()
        self.p = None


# ---------------------------------------------------------------- known findings

def load_known():
    path = os.path.join(VERIF, "known_findings.jsonl")
    out = []
    if os.path.exists(path):
        for l in open(path):
            l = l.strip()
            if l and not l.startswith("#"):
                out.append(json.loads(l))
    return out


class Run:
    """Bookkeeping for one check invocation of one property."""

    def __init__(self, pid, tier, seed, level):
        self.pid, self.tier, self.seed, self.level = pid, tier, seed, level
        self.t0 = time.time()
        self.cov = {"samples": [], "queries": {"unsat": 0, "sat": 0, "unknown": 0},
                    "solver_time_s": 0.0, "functions_encoded": [], "bounds": {},
                    "outside_bounds": [], "trusted_base": []}
        self.assumptions = []
        self.violations = []      # unlisted, reproduced
        self.known_hits = {}      # key -> description
        self.known_counts = {}    # key -> number of reproduced violations attributed to it
        self.engine_errors = []
        self.known = [k for k in load_known()
                      if (k.get("property") == pid or pid in k.get("properties", [])) and k.get("status", "open") == "open"]
        import shutil
        shutil.rmtree(os.path.join(EVID, "replays", pid), ignore_errors=True)

    # --- counters
    def q(self, verdict, dt=0.0):
        self.cov["queries"][verdict] = self.cov["queries"].get(verdict, 0) + 1
        self.cov["solver_time_s"] += dt

    def sample(self, s, cap=12):
        if len(self.cov["samples"]) < cap:
            self.cov["samples"].append(s)

    def engine_error(self, msg):
        log("[engine-error]", msg)
        self.engine_errors.append(msg)

    # --- violations
    def violation(self, signature, what, artefact):
        """signature: dict of role keys; matched against known_findings entries (subset match on 'match')."""
        import re as _re
        for k in self.known:
            m = k.get("match", {})
            ok = all((signature.get(a) in b) if isinstance(b, list) else (signature.get(a) == b) for a, b in m.items())
            if ok and k.get("requires_features"):
                ok = set(k["requires_features"]) <= set(signature.get("features", []))
            if ok and k.get("forbids_features"):
                ok = not (set(k["forbids_features"]) & set(signature.get("features", [])))
            if ok and k.get("prql_regex"):
                ok = bool(_re.search(k["prql_regex"], str((artefact or {}).get("prql", "")), _re.S))
            if ok and k.get("sql_regex"):
                ok = bool(_re.search(k["sql_regex"], str((artefact or {}).get("sql", "")), _re.S))
            if ok and k.get("detail_regex"):
                ok = bool(_re.search(k["detail_regex"], str((artefact or {}).get("detail", "")), _re.S))
            if ok:
                key = k.get("id") or json.dumps(m, sort_keys=True)
                if key not in self.known_hits:
                    self.known_hits[key] = k.get("what", what)
                self.known_counts[key] = self.known_counts.get(key, 0) + 1
                return "known"
        d = os.path.join(EVID, "replays", self.pid)
        os.makedirs(d, exist_ok=True)
        body = {"property": self.pid, "signature": signature, "what": what, "artefact": artefact}
        hsh = hashlib.sha256(json.dumps(body, sort_keys=True, default=str).encode()).hexdigest()[:12]
        path = os.path.join(d, hsh + ".json")
        json.dump(body, open(path, "w"), indent=1, default=str)
        self.violations.append((path, what, signature))
        return "new"

    # --- finish
    def finish(self, extra_cov=None):
        cov = self.cov
        try:        # second-solver cross-check of the kernel queries (engines/mirsym/kernels.py), if it ran
            k = sys.modules.get("kernels")
            if k is not None and k.CROSS["n"]:
                cov["cvc5_cross_check"] = {"queries_seen": k.CROSS["n"], "sent_to_cvc5": k.CROSS["checked"] + k.CROSS["skipped"], "agreed": k.CROSS["agree"],
                                           "no_answer": k.CROSS["skipped"], "disagreements": len(k.CROSS["disagree"])}
                for zv, cv, _ in k.CROSS["disagree"][:3]:
                    self.engine_error(f"solver disagreement on a kernel query: z3 {zv}, cvc5 {cv}")
        except Exception:
            pass
        if extra_cov:
            cov.update(extra_cov)
        cov["solver_time_s"] = round(cov["solver_time_s"], 3)
        cov["known_findings_hit"] = sorted(self.known_hits)
        cov["known_findings_matches"] = dict(sorted(self.known_counts.items()))
        cov["engine_errors"] = self.engine_errors[:20]
        cov["tree_hash"] = tree_hash()
        if not cov["samples"]:
            cov["samples"] = ["<none>"]
        ev = {"property_id": self.pid, "tier": self.tier, "seed": self.seed, "level": self.level,
              "coverage": cov, "assumptions": self.assumptions,
              "wall_s": round(time.time() - self.t0, 2), "violations": len(self.violations)}
        os.makedirs(EVID, exist_ok=True)
        json.dump(ev, open(os.path.join(EVID, self.pid + ".json"), "w"), indent=1, default=str)
        for key, what in sorted(self.known_hits.items()):
            print(f"KNOWN-FINDING: property={self.pid} {what}")
        seen = set()
        for path, what, sig in self.violations:
            print(f"VIOLATION property={self.pid} replay={path}  # {what}")
        if self.violations:
            return EXIT_VIOLATION
        if self.engine_errors:
            print(f"ENGINE-ERROR property={self.pid} {len(self.engine_errors)} problem(s); first: {self.engine_errors[0][:300]}")
            return EXIT_ENGINE
        print(f"OK property={self.pid} tier={self.tier} queries={cov['queries']} wall={ev['wall_s']}s")
        return EXIT_OK
