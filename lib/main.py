"""entry point of ./check"""
import argparse
import importlib
import os
import sys
import traceback

HERE = os.path.dirname(os.path.abspath(__file__))
ROOT = os.path.dirname(HERE)
for p in (HERE, ROOT, os.path.join(ROOT, "engines", "symdb"), os.path.join(ROOT, "engines", "mirsym"),
          os.path.join(ROOT, "engines", "retab"), os.path.join(ROOT, "engines", "kani"), os.path.join(ROOT, "props")):
    sys.path.insert(0, p)

import core  # noqa: E402


def main():
    ap = argparse.ArgumentParser()
    ap.add_argument("prop")
    ap.add_argument("--tier", default=os.environ.get("VERIF_TIER", "quick"), choices=["quick", "thorough"])
    ap.add_argument("--replay")
    ap.add_argument("--only", help="restrict to a sub-check (debugging)")
    a = ap.parse_args()
    os.environ["VERIF_TIER"] = a.tier
    seed = int(os.environ.get("VERIF_SEED", "0") or 0)
    pid = a.prop.upper()
    mod = importlib.import_module(pid.lower())
    if a.replay:
        sys.exit(mod.replay(a.replay))
    R = core.Run(pid, a.tier, seed, mod.LEVEL)
    try:
        mod.run(R, a.tier, seed, only=a.only)
    except core.EngineError as e:
        R.engine_error(str(e))
    except Exception:
        R.engine_error("internal error: " + traceback.format_exc()[-2000:])
    sys.exit(R.finish())


if __name__ == "__main__":
    main()
