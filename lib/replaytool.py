"""./check <ID> --replay <path>: re-run a recorded violation against the current tree."""
import json
import os
import sys

import core


def replay_file(path):
    art = json.load(open(path))
    a = art["artefact"]
    print("property:", art["property"], "\nwhat:", art["what"])
    drv = core.Driver()
    if "prql" in a and "formatted" in a:
        # formatter findings: format again with the current tree, re-parse, compare the trees
        r = drv.req(op="fmt", prql=a["prql"])
        print("prql:\n" + a["prql"])
        print("recorded formatting:\n" + str(a.get("formatted")))
        print("formatter now:\n" + str(r.get("formatted") or r))
        bad = r.get("ok") and (not r.get("same_tree") or r.get("reparse_errors") or not r.get("idempotent"))
        print("REPRODUCED (the formatted text does not parse back to the same tree)" if bad else "NOT REPRODUCED (same tree after formatting now)")
        return 1 if bad else 0
    if "prql" in a and a.get("expect_lex_terminates"):
        r = drv.req(_timeout=10, op="lex", prql=a["prql"])
        print("source text:", repr(a["prql"]))
        print("lexer now:", "no answer within 10 s" if r.get("hang") else ("tokens" if r.get("ok") else r.get("errors")))
        print("REPRODUCED (the lexer does not terminate)" if r.get("hang") else "NOT REPRODUCED (the lexer answers now)")
        return 1 if r.get("hang") else 0
    if "prql" in a and "expect_token" in a:
        # lexer findings: lex the recorded source text with the current tree and compare the first token
        r = drv.req(op="lex", prql=a["prql"])
        toks = r.get("tokens") or []
        print("source text:", repr(a["prql"]))
        print("expected first token:", a["expect_token"], "span end:", a.get("expect_span_end"))
        print("lexer now:", (toks[1] if len(toks) > 1 else toks) if r.get("ok") else r.get("errors"))
        good = r.get("ok") and len(toks) > 1 and toks[1].get("kind") == a["expect_token"] and \
            (a.get("expect_span_end") is None or toks[1]["span"]["end"] == a["expect_span_end"])
        print("NOT REPRODUCED (the token is the expected one now)" if good else "REPRODUCED")
        return 0 if good else 1
    if "prql" in a and "text" in a and art.get("property") == "C08" and "lexed" not in a:
        # string-literal findings: compile with the current tree, execute on SQLite, compare the value with the text
        import sqlite3
        r = drv.compile(a["prql"], "sql.sqlite")
        print("prql:\n" + a["prql"])
        print("compiler now:", r.get("sql") or r.get("panic") or r.get("errors"))
        if r.get("panic"):
            print("REPRODUCED (panic)")
            return 1
        if not r.get("ok"):
            print("NOT REPRODUCED (the program is rejected now)")
            return 0
        try:
            con = sqlite3.connect(":memory:")
            con.execute("create table t(a)")
            con.execute("insert into t values (1)")
            rows = con.execute(r["sql"]).fetchall()
        except Exception as e:
            print("SQLite error:", e, "\nREPRODUCED (the literal breaks the statement)")
            return 1
        print("SQLite returns:", rows, "expected:", [(a["text"],)])
        bad = rows != [(a["text"],)]
        print("REPRODUCED" if bad else "NOT REPRODUCED (the value arrives unchanged now)")
        return 1 if bad else 0
    if "prql" in a:
        tgt = next((f.split(":", 1)[1] for f in a.get("features", []) if f.startswith("target:")), "sql.sqlite")
        r = drv.compile(a["prql"], tgt)
        print("prql:\n" + a["prql"])
        print("target:", tgt)
        print("compiler now:", r.get("sql") or r.get("panic") or r.get("errors"))
        if r.get("ok") and a.get("data") is not None:
            sys.path.insert(0, os.path.join(core.VERIF, "engines", "symdb"))
            import symdb
            schema = {t: None for t in a["data"]}
            import families
            for cand in (symdb.SCHEMA, families.C02_SCHEMA, families.C09_SCHEMA):
                if all(t in cand for t in a["data"] if a["data"][t]):
                    schema = cand
                    break
            data = {t: [tuple(r_) for r_ in rows] for t, rows in a["data"].items()}
            try:
                names, rows = symdb.run_sqlite(schema, data, r["sql"])
                print("instance:", data)
                print("SQLite returns:", names, rows)
                print("recorded expected:", a.get("expected"))
                exp = a.get("expected")
                if exp is not None:
                    same = symdb.rows_match([(i, tuple(x)) for i, x in enumerate(exp)], rows, bool(a.get("ordered")))
                    print("REPRODUCED" if not same else "NOT REPRODUCED (matches expected now)")
                    return 1 if not same else 0
            except Exception as e:
                print("SQLite error:", e)
                return 1
    print(json.dumps(a, indent=1, default=str)[:3000])
    return 1
